(* Proofs about Model/Props.v (C19). *)
From AHP Require Import Model.Base Model.Str Model.PropRules Model.Attr Model.Props Gen.Tables Spec.PropSpec Proofs.StrProofs.

Lemma of_const_no_raise k : of_const k <> VRaiseIndexSize.
Proof. destruct k; discriminate. Qed.
Lemma empty_or_invalid_no_raise inv e : empty_or_invalid inv e <> VRaiseIndexSize.
Proof. unfold empty_or_invalid, handle_invalid. destruct e; apply of_const_no_raise || discriminate. Qed.

(* reading a special property never raises, whatever text the attribute holds *)
Theorem interp_total : forall fuel r tag s b, interp fuel r tag s b <> VRaiseIndexSize.
Proof.
  induction fuel as [|k IH]; intros r tag s b; destruct r; simpl;
    repeat match goal with
           | |- context [if ?c then _ else _] => destruct c
           | |- context [match ?x with _ => _ end] => destruct x
           end; try discriminate; try apply of_const_no_raise; try apply empty_or_invalid_no_raise; auto.
Qed.
Theorem prop_get_total tag prop s b : prop_get tag prop s b <> VRaiseIndexSize.
Proof.
  unfold prop_get. destruct (linked tag prop); [|discriminate].
  destruct (od_get prop special_rules); [apply interp_total|].
  repeat match goal with
         | |- context [if ?c then _ else _] => destruct c
         | |- context [match ?x with _ => _ end] => destruct x
         end; discriminate.
Qed.

(* clamped integers stay within their bounds *)
Lemma cap_in_range lo hi z l h : lo = Some l -> hi = Some h -> (l <= h)%Z -> (l <= cap lo hi z <= h)%Z.
Proof.
  intros -> -> Hlh. unfold cap. destruct (z <? l)%Z eqn:E1.
  - apply Z.ltb_lt in E1. destruct (h <? l)%Z eqn:E2; [apply Z.ltb_lt in E2; lia | lia].
  - apply Z.ltb_ge in E1. destruct (h <? z)%Z eqn:E2; [apply Z.ltb_lt in E2; lia | apply Z.ltb_ge in E2; lia].
Qed.
Theorem capped_rule_range fuel attr d l h inv empty tag s b : (l <= h)%Z ->
  let v := interp fuel (RIntCapped attr d (Some l) (Some h) inv empty) tag s b in
  (exists z, v = VInt z /\ (l <= z <= h)%Z) \/ v = of_const inv \/ v = empty_or_invalid inv empty.
Proof.
  intros Hlh. destruct fuel; simpl; destruct (arg_is_empty _); auto;
    (destruct (arg_int _) as [[z|]|]; [left; eexists; split; [reflexivity | now apply cap_in_range with (lo := Some l) (hi := Some h)] | auto | auto]).
Qed.
Theorem range_rule_range fuel attr d lo hi inv empty tag s b :
  let v := interp fuel (RIntRange attr d lo hi inv empty) tag s b in
  (exists z, v = VInt z /\ in_range lo hi z = true) \/ v = of_const inv \/ v = empty_or_invalid inv empty.
Proof.
  destruct fuel; simpl; destruct (arg_is_empty _); auto;
    (destruct (arg_int _) as [[z|]|]; auto; destruct (in_range lo hi z) eqn:E; [left; eauto | auto]).
Qed.
Theorem posint_rule_range fuel attr d inv tag s b :
  let v := interp fuel (RPosInt attr d inv) tag s b in (exists z, v = VInt z /\ (0 <= z)%Z) \/ v = of_const inv.
Proof.
  destruct fuel; simpl; (destruct (arg_int _) as [[z|]|]; auto; destruct (z <? 0)%Z eqn:E; [auto | left; exists z; split; auto; apply Z.ltb_ge in E; lia]).
Qed.
Theorem enum_rule_range fuel attr d values inv empty tag s b :
  let v := interp fuel (REnum attr d values inv empty) tag s b in
  (exists x, v = VStr x /\ In x values) \/ v = of_const inv \/ v = empty_or_invalid inv empty.
Proof.
  destruct fuel; simpl; (destruct (arg_str _) as [x|]; auto; destruct (String.eqb (lower x) ""); auto;
    destruct (smem (lower x) values) eqn:E; [left; exists (lower x); split; auto; now apply smem_In | auto]).
Qed.
Theorem tabindex_rule fuel attr tag s b : exists z, interp fuel (RIntOrMinus1 attr) tag s b = VInt z.
Proof. destruct fuel; simpl; (destruct (arg_is_empty _); [eauto|]; destruct (arg_int _) as [[z|]|]; eauto). Qed.

(* boolean properties: True exactly when the attribute is present *)
Theorem boolean_prop tag prop s b : linked tag prop = true -> od_get prop special_rules = None ->
  is_binary_string (renamed prop) = false -> is_binary (renamed prop) = true ->
  prop_get tag prop s b = VBool (match snd (getAttribute (renamed prop) s) with PFalse => false | _ => true end).
Proof. intros H1 H2 H3 H4. unfold prop_get. now rewrite H1, H2, H3, H4. Qed.

(* ---------- assignment: the only property assignment that raises is an out-of-range maxLength ---------- *)
Definition all_linked_names : list string := attribute_links ++ flat_map snd tag_additional.
Lemma smem_In x l : smem x l = true -> In x l.
Proof.
  induction l as [|y r IH]; cbn [smem]; [discriminate|]. intros H. apply Bool.orb_true_iff in H as [H|H]; [left; symmetry; now apply String.eqb_eq | right; auto].
Qed.
Lemma od_get_in_list {V} k (d : list (string * V)) v : od_get k d = Some v -> In (k, v) d.
Proof.
  induction d as [|[k' v'] r IH]; cbn [od_get]; [discriminate|]. destruct (String.eqb k k') eqn:E; intros H.
  - apply String.eqb_eq in E. inversion H; subst. now left.
  - right; auto.
Qed.
Lemma linked_in_table tag prop : linked tag prop = true -> In prop all_linked_names.
Proof.
  unfold linked, all_linked_names. intros H. apply in_or_app. apply Bool.orb_true_iff in H as [H|H]; [left; now apply smem_In|]. right.
  destruct (od_get tag tag_additional) as [l|] eqn:E; [|discriminate]. apply in_flat_map. exists (tag, l). split; [now apply od_get_in_list | now apply smem_In].
Qed.
(* finite table (regenerated from constants.py on every run): every linked property is stored under a valid attribute name *)
Lemma linked_names_valid_b : forallb (fun p => valid_attr_name (renamed p)) all_linked_names = true.
Proof. vm_compute. reflexivity. Qed.
Lemma linked_name_valid tag prop : linked tag prop = true -> valid_attr_name (renamed prop) = true.
Proof. intros H. apply linked_in_table in H. exact (proj1 (forallb_forall _ _) linked_names_valid_b _ H). Qed.
Lemma setitem_ok k v s : snd (setitem k v s) = ROk.
Proof.
  unfold setitem. destruct (String.eqb (lower k) "style"); [reflexivity|]. destruct (String.eqb (lower k) "class"); [reflexivity|].
  destruct (is_binary_string (lower k)); reflexivity.
Qed.
Lemma validation_only_maxLength name : smem name special_validation_names = true -> name = "maxLength".
Proof. intros H. apply smem_In in H. destruct H as [H|[]]. now symmetry. Qed.
Theorem prop_set_raises_only_maxLength tag prop v isbool s e : linked tag prop = true ->
  snd (prop_set tag prop v isbool s) = RExc e -> prop = "maxLength" /\ e = EIndexSize.
Proof.
  intros Hl H. unfold prop_set in H. rewrite Hl, Bool.andb_true_r in H.
  destruct (String.eqb prop "maxLength") eqn:Em.
  - apply String.eqb_eq in Em. split; [exact Em|].
    match type of H with snd (if ?c then _ else _) = _ => destruct c end.
    + unfold setAttribute in H. replace (valid_attr_name "maxlength") with true in H by (vm_compute; reflexivity).
      rewrite setitem_ok in H. discriminate.
    + cbn [snd] in H. congruence.
  - exfalso. unfold dot_assign in H. destruct (String.eqb prop "className"); [discriminate|]. rewrite Hl in H.
    destruct (smem prop special_validation_names) eqn:Ev.
    { apply validation_only_maxLength in Ev. subst. discriminate. }
    pose proof (linked_name_valid tag prop Hl) as Hv. unfold setAttribute in H. rewrite Hv in H.
    destruct (is_binary_string (renamed prop)); [rewrite setitem_ok in H; discriminate|].
    destruct (is_binary (renamed prop)); [|rewrite setitem_ok in H; discriminate].
    match type of H with snd (if ?c then _ else _) = _ => destruct c end; [rewrite setitem_ok in H|]; discriminate.
Qed.
