(* Str.v — the Python str methods the library relies on, over UTF-8 byte strings (DESIGN 3.1).
   Case mapping and character classes are ASCII; the generators keep names ASCII. *)
From AHP Require Import Model.Base.

Definition code (c : ascii) : nat := nat_of_ascii c.
(* str.strip() whitespace restricted to ASCII: \t \n \v \f \r, space, \x1c-\x1f *)
Definition is_ws (c : ascii) : bool :=
  let n := code c in ((9 <=? n) && (n <=? 13)) || (n =? 32) || ((28 <=? n) && (n <=? 31)).
Definition is_sp (c : ascii) : bool := Ascii.eqb c " ".
Definition is_upper (c : ascii) : bool := let n := code c in (65 <=? n) && (n <=? 90).
Definition is_lower (c : ascii) : bool := let n := code c in (97 <=? n) && (n <=? 122).
Definition is_alpha (c : ascii) : bool := is_upper c || is_lower c.
Definition is_digit (c : ascii) : bool := let n := code c in (48 <=? n) && (n <=? 57).
Definition is_alnum (c : ascii) : bool := is_alpha c || is_digit c.
Definition lower_c (c : ascii) : ascii := if is_upper c then ascii_of_nat (code c + 32) else c.
Definition upper_c (c : ascii) : ascii := if is_lower c then ascii_of_nat (code c - 32) else c.

Fixpoint lower (s : string) : string := match s with String c r => String (lower_c c) (lower r) | EmptyString => EmptyString end.
Fixpoint upper (s : string) : string := match s with String c r => String (upper_c c) (upper r) | EmptyString => EmptyString end.

Fixpoint rev_s (s acc : string) : string := match s with String c r => rev_s r (String c acc) | EmptyString => acc end.
Definition srev (s : string) : string := rev_s s "".

Fixpoint lstrip_by (f : ascii -> bool) (s : string) : string :=
  match s with String c r => if f c then lstrip_by f r else s | EmptyString => EmptyString end.
Definition rstrip_by (f : ascii -> bool) (s : string) : string := srev (lstrip_by f (srev s)).
Definition strip_by (f : ascii -> bool) (s : string) : string := rstrip_by f (lstrip_by f s).
Definition lstrip := lstrip_by is_ws.
Definition rstrip := rstrip_by is_ws.
Definition strip := strip_by is_ws.

(* str.split(sep) for a one-character separator *)
Fixpoint split_c (sep : ascii) (s cur : string) : list string :=
  match s with
  | EmptyString => [srev cur]
  | String c r => if Ascii.eqb c sep then srev cur :: split_c sep r "" else split_c sep r (String c cur)
  end.
Definition split (sep : ascii) (s : string) : list string := split_c sep s "".

(* s.index(c): prefix before / suffix after the first occurrence *)
Fixpoint find_c (sep : ascii) (s pre : string) : option (string * string) :=
  match s with
  | EmptyString => None
  | String c r => if Ascii.eqb c sep then Some (srev pre, r) else find_c sep r (String c pre)
  end.

Definition nonempty (s : string) : bool := negb (String.eqb s "").
Fixpoint smem (x : string) (l : list string) : bool :=
  match l with [] => false | y :: r => String.eqb x y || smem x r end.
Fixpoint sremove_first (x : string) (l : list string) : list string :=
  match l with [] => [] | y :: r => if String.eqb x y then r else y :: sremove_first x r end.
Definition join (sep : string) (l : list string) : string := sjoin sep l.
Definition chars (s : string) : list ascii := list_ascii_of_string s.
Definition has_char (c : ascii) (s : string) : bool := existsb (Ascii.eqb c) (chars s).

(* WORDS_ONLY_RE.sub(' ', contents.strip()): runs of 2+ spaces -> one space *)
Fixpoint collapse_sp (s : string) (prev_sp : bool) : string :=
  match s with
  | EmptyString => EmptyString
  | String c r => if is_sp c then (if prev_sp then collapse_sp r true else String c (collapse_sp r true))
                  else String c (collapse_sp r false)
  end.
Definition stripWordsOnly (s : string) : string := collapse_sp (strip s) false.

(* utils.escapeQuotes *)
Fixpoint escape_quotes (s : string) : string :=
  match s with
  | String c r => if Ascii.eqb c """" then "&quot;" +++ escape_quotes r else String c (escape_quotes r)
  | EmptyString => EmptyString
  end.

(* str.replace(old, new) for a one-character old *)
Fixpoint replace_c (old : ascii) (new : string) (s : string) : string :=
  match s with
  | String c r => if Ascii.eqb c old then new +++ replace_c old new r else String c (replace_c old new r)
  | EmptyString => EmptyString
  end.

(* Tags.isValidAttributeName (ASCII) *)
Definition valid_attr_name (n : string) : bool :=
  match n with
  | EmptyString => false
  | String c _ => (is_alpha c || Ascii.eqb c "_")
                  && forallb (fun ch => is_alnum ch || Ascii.eqb ch "-" || Ascii.eqb ch "_") (chars n)
  end.

Definition is_ascii_str (s : string) : bool := forallb (fun c => code c <? 128) (chars s).

Fixpoint prefix_b (p s : string) : bool :=
  match p, s with
  | EmptyString, _ => true
  | String a p', String b s' => Ascii.eqb a b && prefix_b p' s'
  | _, _ => false
  end.

(* ordered dictionaries (Python 3.7+ dict / OrderedDict): update in place, append, delete *)
Section OD.
Context {V : Type}.
Fixpoint od_set (k : string) (v : V) (d : list (string * V)) : list (string * V) :=
  match d with [] => [(k, v)] | (k', v') :: r => if String.eqb k k' then (k, v) :: r else (k', v') :: od_set k v r end.
Fixpoint od_del (k : string) (d : list (string * V)) : list (string * V) :=
  match d with [] => [] | (k', v') :: r => if String.eqb k k' then r else (k', v') :: od_del k r end.
Fixpoint od_get (k : string) (d : list (string * V)) : option V :=
  match d with [] => None | (k', v') :: r => if String.eqb k k' then Some v' else od_get k r end.
Definition od_has (k : string) (d : list (string * V)) : bool := match od_get k d with Some _ => true | None => false end.
End OD.
