#!/bin/bash
# MANIFEST.setup_cmd: build the Coq development from files on disk (offline), full .vo build.
cd "$(dirname "$0")" || exit 2
mkdir -p build evidence replays
./vcheck setup
