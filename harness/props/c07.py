"""C07 - indexes are transparent: indexed search equals unindexed search."""
import json
import re

from harness import core
from harness.core import cs, clist, copt
from harness.props import parse_common as pc
from harness.props import c02, c06

ATTRS = ['data-x', 'name', 'title']


def gen_edit(rng, n, fresh_ids):
    """n = number of elements currently in the document (ranks 0..n-1, 0 is the root); ids stay unique"""
    r = rng.random()
    u = rng.randrange(n)
    if r < 0.2:
        a = rng.choice(['id', 'name', 'data-x', 'title'])
        if a == 'id':
            return ['setattr', u, a, fresh_ids.pop()]
        return ['setattr', u, a, rng.choice(['n1', 'n2', '1', 'Abc'])]
    if r < 0.35:
        return ['removeattr', u, rng.choice(['id', 'name', 'class', 'data-x'])]
    if r < 0.5:
        return ['addclass', u, rng.choice(c06.CLASSES + ['new'])]
    if r < 0.6:
        return ['removeclass', u, rng.choice(c06.CLASSES)]
    if r < 0.7:
        return ['setclass', u, rng.choice(['x y', 'new', '', 'w z x'])]
    if r < 0.88:
        a = rng.choice(['class', 'name', 'data-x', 'id'])
        return ['appendnew', u, rng.choice(c06.NAMES), [[a, fresh_ids.pop() if a == 'id' else rng.choice(['x', 'n1', '2', 'x new'])]]]
    return ['remove', max(1, u)]


def gen_reconfig(rng):
    r = rng.random()
    if r < 0.3:
        return ['addindex', rng.choice(ATTRS + ['DATA-X'])]
    if r < 0.45:
        return ['removeindex', rng.choice(ATTRS)]
    if r < 0.55:
        return ['disable']
    return ['reindex', [rng.choice([None, True, False]) for _ in range(4)]]


def gen_iquery(rng):
    r = rng.random()
    if r < 0.2:
        return ['tagname', rng.choice(c06.NAMES + ['h1'])]
    if r < 0.35:
        return ['name', rng.choice(c06.NAMEVALS + ['zz'])]
    if r < 0.5:
        return ['id', rng.choice(c06.IDS[:8] + ['e1', 'e3', 'zz'])]
    if r < 0.72:
        k = rng.choice([1, 1, 2, 3])
        return ['class', rng.choice([' ', '  ']).join(rng.choice(c06.CLASSES + ['new', 'none']) for _ in range(k))]
    if r < 0.87:
        return ['attr', rng.choice(ATTRS), rng.choice(c06.DATAVALS + c06.NAMEVALS + ['e1', 'zz'])]
    return ['attrvalues', rng.choice(ATTRS), [rng.choice(c06.DATAVALS + c06.NAMEVALS + ['zz']) for _ in range(rng.randint(0, 3))]]


class C07(core.Check):
    ID = 'C07'
    RUN_MODULE = 'Corr.Run_Index'
    RUN_FN = 'run_index'
    CASE_TYPE = 'icase'
    SHARD = 60
    RULE = ('histories on an IndexedAdvancedHTMLParser with any of the 16 on/off combinations of the id/name/class/tag indexes and 0-2 attribute '
            'indexes: parse, [parse another document], [DOM edits: set/remove id, name, class, arbitrary attributes, append new and remove subtrees], '
            '[reconfiguration: add/remove attribute index, disableIndexing, reindex with arguments], reindex, then queries (tag name, name, id, 1-3 '
            'class names, attribute/value, value sets) from the document root and from arbitrary sub-elements, each with useIndex=True and False and '
            'on a plain parser given the same document and edits. The model reproduces the indexed answers; the oracle compares the three answers. '
            'non-trivial = at least one query has a non-empty answer')
    TRUSTED = ['stdlib html.parser tokenizer (documents enter the model as recorded handler calls)']
    ASSUMPTIONS = ['ids are unique, searched values are non-empty; queries are issued after a synchronising reindex / parse (the property\'s claim)']
    PARTIAL = ['useIndex=False is modelled as the unindexed search; in the code its recursion re-enters the indexed override for nested levels, '
               'which coincides whenever the index is in step (the only states the correspondence runs)']

    def generate(self):
        rng = self.rng
        cases = []
        n = 240 if self.tier == 'quick' else 3000
        for i in range(n):
            flags = [bool((i >> b) & 1) for b in range(4)] if i < 16 else [rng.random() < 0.6 for _ in range(4)]
            toks = c06.gen_doc(rng, 14 if self.tier == 'quick' else 40, multi=rng.random() < 0.1)
            first = c06.gen_doc(rng, 6) if rng.random() < 0.3 else None
            nel = sum(1 for t in toks if t[0] == 'S')
            edits = []
            cur = nel
            fresh = ['e9', 'e8', 'e7', 'e6', 'e5', 'e4', 'e3', 'e2', 'e1']
            for _ in range(rng.choice([0, 0, 1, 2, 4])):
                e = gen_edit(rng, cur, fresh)
                edits.append(e)
            attrs = rng.sample(ATTRS, rng.choice([0, 0, 1, 2]))
            reconf = [gen_reconfig(rng) for _ in range(rng.choice([0, 0, 1, 2]))]
            if rng.random() < 0.25:
                reconf.append(['reindex', [rng.choice([None, True]), rng.choice([None, True]), rng.choice([None, True, False]), rng.choice([None, True, False])]])
            queries = []
            for _ in range(10):
                queries.append(dict(q=gen_iquery(rng), sub=rng.random() < 0.35, sel=rng.random()))
            # the closing reindex() may be left out when the history is already synchronised: nothing changed since the parse,
            # or the last reconfiguration step was itself a reindex(...)
            synced = (not edits and not reconf) or (bool(reconf) and reconf[-1][0] == 'reindex')
            final = (not synced) or rng.random() < 0.4
            cases.append(dict(flags=flags, attr_indexes=attrs, first=first, toks=toks, edits=edits, reconf=reconf, final=final, queries=queries,
                              via=[None, None, 'ctor', 'file'][i % 4]))
        # directed: an attribute index that is added, removed, added again ... and then searched on that very attribute, with values
        # that occur in the document
        nd = 24 if self.tier == 'quick' else 300
        for i in range(nd):
            a = ['data-x', 'name'][i % 2]
            vals = c06.DATAVALS if a == 'data-x' else c06.NAMEVALS
            toks = c06.gen_doc(rng, 14 if self.tier == 'quick' else 40, multi=rng.random() < 0.1)
            reconf = rng.choice([[['removeindex', a]],
                                 [['removeindex', a], ['reindex', [None, None, None, None]]],
                                 [['removeindex', a], ['addindex', a]],
                                 [['addindex', a.upper()], ['removeindex', a]],
                                 [['removeindex', a], ['addindex', a], ['removeindex', a]],
                                 [['disable'], ['removeindex', a], ['reindex', [True, True, True, True]]]])
            edits = []
            nel = sum(1 for t in toks if t[0] == 'S')
            if rng.random() < 0.4:
                edits.append(['setattr', rng.randrange(nel), a, rng.choice(vals)])
            queries = []
            for _ in range(6):
                q = ['attr', a, rng.choice(vals)] if rng.random() < 0.5 else ['attrvalues', a, rng.sample(vals, rng.randint(1, min(3, len(vals))))]
                queries.append(dict(q=q, sub=rng.random() < 0.3, sel=rng.random()))
            for _ in range(4):
                queries.append(dict(q=gen_iquery(rng), sub=rng.random() < 0.35, sel=rng.random()))
            cases.append(dict(flags=[rng.random() < 0.6 for _ in range(4)], attr_indexes=[a] if i % 3 else [], first=c06.gen_doc(rng, 6) if i % 4 == 0 else None,
                              toks=toks, edits=edits, reconf=reconf, final=True, queries=queries))
        # directed: the document comes in through the constructor's filename argument or parseFile and is searched at once
        ne = 16 if self.tier == 'quick' else 200
        for i in range(ne):
            toks = c06.gen_doc(rng, 14 if self.tier == 'quick' else 40, multi=rng.random() < 0.1)
            queries = [dict(q=gen_iquery(rng), sub=rng.random() < 0.35, sel=rng.random()) for _ in range(10)]
            cases.append(dict(flags=[bool((i >> b) & 1) for b in range(4)] if i < 16 else [rng.random() < 0.6 for _ in range(4)], attr_indexes=[], first=None,
                              toks=toks, edits=[], reconf=[], final=False, queries=queries, via=['ctor', 'file'][i % 2] if i % 3 else 'ctor'))
        self.stats.update(histories=n, directed_attribute_index_histories=nd, directed_file_entry_histories=ne)
        return cases

    # ------------------------------------------------------------------ executing a history
    @staticmethod
    def _apply_edit(p, els, e):
        """els: current pre-order list; returns None (new pre-order is recomputed by the caller)"""
        from AdvancedHTMLParser.Tags import AdvancedTag
        k = e[0]
        if e[1] >= len(els):
            return 'skip'
        t = els[e[1]]
        if k == 'setattr':
            t.setAttribute(e[2], e[3])
        elif k == 'removeattr':
            t.removeAttribute(e[2])
        elif k == 'addclass':
            t.addClass(e[2])
        elif k == 'removeclass':
            t.removeClass(e[2])
        elif k == 'setclass':
            t.className = e[2]
        elif k == 'appendnew':
            if t.tagName == 'xxxblank':
                return 'skip'
            t.appendChild(AdvancedTag(e[2], [(a, b) for a, b in e[3]]))
        elif k == 'remove':
            if t.parentNode is None or t.tagName == 'xxxblank':
                return 'skip'
            t.remove()
        return 'ok'

    def _history(self, case, indexed=True, recording=False):
        import AdvancedHTMLParser as A
        f = case['flags']
        html = c02.render(case['toks'], None)
        via_file = bool(case.get('via')) and not recording and not case.get('first')
        path = None
        if via_file:
            # the document reaches the parser through the constructor's filename argument / parseFile instead of parseStr
            import os
            import tempfile
            fd, path = tempfile.mkstemp(suffix='.html', dir=str(core.BUILD))
            with os.fdopen(fd, 'wb') as fh:
                fh.write(html.encode('utf-8'))
        try:
            if indexed:
                cls = pc.rec_class('indexed') if recording else A.IndexedAdvancedHTMLParser
                if via_file and case['via'] == 'ctor' and not case['attr_indexes']:
                    p = cls(path, indexIDs=f[0], indexNames=f[1], indexClassNames=f[2], indexTagNames=f[3])
                    path_done = True
                else:
                    p = cls(indexIDs=f[0], indexNames=f[1], indexClassNames=f[2], indexTagNames=f[3])
                    path_done = False
                for a in case['attr_indexes']:
                    p.addIndexOnAttribute(a)
            else:
                p = A.AdvancedHTMLParser()
                path_done = False
            rec = None
            if case.get('first'):
                p.parseStr(c02.render(case['first'], None))
            if recording:
                rec = pc.parse_recorded(p, html)
            elif via_file:
                if not path_done:
                    p.parseFile(path)
            else:
                p.parseStr(html)
        finally:
            if path:
                import os
                try:
                    os.unlink(path)
                except OSError:
                    pass
        applied = []
        for e in case['edits']:
            els = pc.preorder(p.getRoot())
            applied.append(self._apply_edit(p, els, e))
        if indexed:
            for rc in case['reconf']:
                if rc[0] == 'addindex':
                    p.addIndexOnAttribute(rc[1])
                elif rc[0] == 'removeindex':
                    p.removeIndexOnAttribute(rc[1])
                elif rc[0] == 'disable':
                    p.disableIndexing()
                else:
                    a = rc[1]
                    p.reindex(a[0], a[1], a[2], a[3])
            if case.get('final', True):
                p.reindex()
        return p, rec, applied

    @staticmethod
    def _ask(p, q, root, use_index=None):
        kw = {} if use_index is None else {'useIndex': use_index}
        k = q[0]
        if k == 'tagname':
            return p.getElementsByTagName(q[1], root, **kw)
        if k == 'name':
            return p.getElementsByName(q[1], root, **kw)
        if k == 'id':
            return p.getElementById(q[1], root, **kw)
        if k == 'class':
            return p.getElementsByClassName(q[1], root, **kw)
        if k == 'attr':
            return p.getElementsByAttr(q[1], q[2], root, **kw)
        return p.getElementsWithAttrValues(q[1], set(q[2]), root, **kw)

    @staticmethod
    def _show(r, rank):
        from AdvancedHTMLParser.Tags import AdvancedTag
        if r is None:
            return 'None'
        if isinstance(r, AdvancedTag):
            return 'E%d' % rank.get(id(r), 999)
        return '[%s]' % ','.join(str(rank.get(id(e), 999)) for e in r)

    @staticmethod
    def _subrank(qd, n):
        if qd['sub'] and n > 1:
            return 1 + int(qd['sel'] * (n - 1)) % (n - 1)
        return None

    def _answers(self, p, case, use_index, sort_values=False):
        els = pc.preorder(p.getRoot())
        rank = {id(e): i for i, e in enumerate(els)}
        out = []
        for qd in case['queries']:
            root = 'root'
            sr = self._subrank(qd, len(els))
            if sr is not None:
                root = els[sr]
            try:
                r = self._ask(p, qd['q'], root, use_index)
                if qd['q'][0] == 'attrvalues' and sort_values and not isinstance(r, str):
                    s = '{%s}' % ','.join(map(str, sorted(rank.get(id(e), 999) for e in r)))
                else:
                    s = self._show(r, rank)
            except Exception as e:
                s = 'exc:' + core.exc_name(e)
            out.append(s)
        return out

    def run_impl(self, case):
        p, rec, applied = self._history(case, indexed=True, recording=True)
        self._last = (id(case), rec, applied)
        if rec[0] != 'ok' or not pc.names_ascii(rec[1], rec[2]):
            return None
        self._last = (id(case), rec, applied, len(pc.preorder(p.getRoot())))
        a = self._answers(p, case, True, sort_values=True)
        b = self._answers(p, case, False, sort_values=True)
        return '\x1f'.join(x + '/' + y for x, y in zip(a, b))

    def coq_case(self, case):
        if getattr(self, '_last', (None,))[0] == id(case):
            rec, applied, nels = self._last[1], self._last[2], self._last[3]
        else:
            p, rec, applied = self._history(case, indexed=True, recording=True)
            nels = len(pc.preorder(p.getRoot()))

        def cb(b):
            return 'None' if b is None else ('(Some true)' if b else '(Some false)')
        edits = []
        for e, ok in zip(case['edits'], applied):
            if ok != 'ok':
                continue
            k = e[0]
            if k == 'setattr':
                edits.append('ESetAttr %d %s %s' % (e[1], cs(e[2]), cs(e[3])))
            elif k == 'removeattr':
                edits.append('ERemoveAttr %d %s' % (e[1], cs(e[2])))
            elif k == 'addclass':
                edits.append('EAddClass %d %s' % (e[1], cs(e[2])))
            elif k == 'removeclass':
                edits.append('ERemoveClass %d %s' % (e[1], cs(e[2])))
            elif k == 'setclass':
                edits.append('ESetClass %d %s' % (e[1], cs(e[2])))
            elif k == 'appendnew':
                edits.append('EAppendNew %d %s %s' % (e[1], cs(e[2]), clist('(%s, Some %s)' % (cs(a), cs(b)) for a, b in e[3])))
            else:
                edits.append('ERemove %d' % e[1])
        reconf = []
        for rc in case['reconf']:
            if rc[0] == 'addindex':
                reconf.append('CAddIndex %s' % cs(rc[1]))
            elif rc[0] == 'removeindex':
                reconf.append('CRemoveIndex %s' % cs(rc[1]))
            elif rc[0] == 'disable':
                reconf.append('CDisable')
            else:
                reconf.append('CReindex %s %s %s %s' % tuple(cb(b) for b in rc[1]))
        qs = []
        for qd in case['queries']:
            q = qd['q']
            k = q[0]
            if k == 'tagname':
                cq = '(QTagName %s)' % cs(q[1])
            elif k == 'name':
                cq = '(QName %s)' % cs(q[1])
            elif k == 'id':
                cq = '(QId %s)' % cs(q[1])
            elif k == 'class':
                cq = '(QClass %s)' % cs(q[1])
            elif k == 'attr':
                cq = '(QAttr %s %s)' % (cs(q[1]), cs(q[2]))
            else:
                cq = '(QAttrValues %s %s)' % (cs(q[1]), clist(cs(v) for v in q[2]))
            sr = self._subrank(qd, nels)
            qs.append('(%s, %s)' % ('None' if sr is None else '(Some %d)' % sr, cq))
        f = case['flags']
        return '((%s, %s, %s, %s), %s, %s, %s, %s, %s, %s)' % (
            'true' if f[0] else 'false', 'true' if f[1] else 'false', 'true' if f[2] else 'false', 'true' if f[3] else 'false',
            clist(cs(a) for a in case['attr_indexes']), pc.coq_doc(rec[1], rec[2]), clist(edits), clist(reconf),
            'true' if case.get('final', True) else 'false', clist(qs))

    # ------------------------------------------------------------------ oracle
    def oracle(self, case):
        try:
            pi, _, _ = self._history(case, indexed=True)
        except Exception as e:
            return 'the history raised %s on the indexed parser' % type(e).__name__
        pp, _, _ = self._history(case, indexed=False)
        if pi.getRoot() is None:
            return None
        a_idx = self._answers(pi, case, True, sort_values=True)
        a_no = self._answers(pi, case, False, sort_values=True)
        a_plain = self._answers(pp, case, None, sort_values=True)
        for qd, x, y, z in zip(case['queries'], a_idx, a_no, a_plain):
            if x != y or x != z:
                return 'query %s (%s): useIndex=True gives %s, useIndex=False gives %s, the plain parser gives %s' % (
                    json.dumps(qd['q']), 'from a sub-element' if qd['sub'] else 'from the root', x, y, z)
        return None

    def shrink_candidates(self, case):
        if len(case['queries']) > 1:
            for q in case['queries']:
                yield dict(case, queries=[q])
        for key in ('edits', 'reconf'):
            l = case[key]
            for i in range(len(l) - 1, -1, -1):
                yield dict(case, **{key: l[:i] + l[i + 1:]})
        if case.get('first'):
            yield dict(case, first=None)
        if case['attr_indexes']:
            yield dict(case, attr_indexes=case['attr_indexes'][1:])

    def nontrivial_key(self, case, snap):
        return json.dumps(case, sort_keys=True) if re.search(r'\[\d|E\d|\{\d', snap) else None

    def finding_key(self, case, what):
        m = re.match(r'^query \["(\w+)"', what)
        return '%s/%s/%s' % (m.group(1) if m else 'history', 'sub' if 'sub-element' in what else 'root', 'exc' if 'exc:' in what else 'result')


CHECK = C07
