(* C01 — serialise -> parse round trip (Stage A of DESIGN 3.3: token level; the tokenizer enters as the instance-checked
   lexer contract "handler calls on render l = chunk l").  Statements only; proofs in Proofs/RoundTripProofs.v. *)
From AHP Require Import Model.Base Model.Str Model.Attr Model.Dom Model.Serial Model.Parser Model.RoundTrip Model.Search Model.Index Gen.Tables
     Proofs.DomProofs Proofs.ParserProofs Proofs.RoundTripProofs Proofs.CloneProofs Proofs.IndexedParserProofs Proofs.FixPointProofs Proofs.ChunkedProofs Proofs.ChunkSpecProofs Proofs.MultiRootProofs.

(* serialisation is exactly the rendering of the tree's token list, for every tree *)
Theorem C01_render_factor : forall t, outer_html t = render (toks_of t).
Proof. exact render_factor. Qed.
(* serialisation always yields a string: get_html is defined whenever there is a root (the start tag of a value-less
   attribute is the bare name, Attr.render_attr) *)
Theorem C01_serialise_is_string : forall r d, r <> None -> exists h, get_html r d = Some h.
Proof. intros r d H. destruct r as [t|]; [eexists; reflexivity | congruence]. Qed.
(* segment lemma: inside any open element, a tree's own handler calls append exactly one child - the tree rebuilt
   (renumbered, owned by the parser, attributes re-read from the start tag, empty text dropped) - and restore the stack *)
Theorem C01_segment : forall t, InDom t -> forall s f r, pstk s = f :: r -> has_root s = true ->
  prun PPlain s (retoks t) =
  POk (set_next (push_top (BTag (fst (rebuild t (pnext s) (Some (uid (fh f)))))) s) (snd (rebuild t (pnext s) (Some (uid (fh f)))))).
Proof. exact segment. Qed.
(* a whole document: a fresh parser fed a tree's own handler calls ends with that tree rebuilt as its closed root *)
Theorem C01_roundtrip_tokens : forall t, InDom t ->
  exists s, prun PPlain pinit (retoks t) = POk s /\ tree_of s = Some (fst (rebuild t 0 None)) /\ pstk s = [].
Proof. exact root_roundtrip. Qed.
(* the rebuilt tree is again a tree the parser owns and satisfies the structural invariant *)
Theorem C01_rebuilt_WF : forall ts1 ts2 s, feed PPlain ts1 ts2 = POk s ->
  match tree_of s with Some t => WF None the_doc t | None => True end.
Proof. exact (feed_tree_WF PPlain). Qed.

(* the string fixed point: a fresh parser fed the tree's own handler calls ends with a tree that serialises to the identical
   string - for trees whose attribute mappings are constructor-built with non-degenerate style declarations (GoodTree) *)
Theorem C01_fixed_point : forall t, InDom t -> GoodTree t ->
  exists s root, prun PPlain pinit (retoks t) = POk s /\ tree_of s = Some root /\ pstk s = [] /\ outer_html root = outer_html t.
Proof. exact roundtrip_fixed_point. Qed.
(* attributes: what the tokenizer reads back from a rendered start tag rebuilds a mapping that renders identically *)
Theorem C01_attributes_fixed_point : forall a, Built a -> start_attrs (sync (reattrs a)) = start_attrs (sync a).
Proof. exact reattrs_faithful. Qed.
(* every parsed document (any parser class, retry included) is such a tree, so a second round trip changes nothing *)
Theorem C01_parsed_trees_qualify : forall cls ts1 ts2 s root, Forall tok_attrs_ok ts1 -> Forall tok_attrs_ok ts2 ->
  feed cls ts1 ts2 = POk s -> tree_of s = Some root -> GoodTree root.
Proof. exact parsed_good_tree. Qed.

(* the same fixed point on the stream the tokenizer really delivers for the serialised tree: every text run split into data pieces,
   &name; and &#n; references, comments and lone "<" / "&" (chunk), script / style content as one piece - for every tree whose text
   runs the chunker reproduces in full (complete: no comment opener left unclosed, no bare "&" at the very end of a run) *)
Theorem C01_fixed_point_real_stream : forall t, InDom t -> GoodTree t -> CompleteT t ->
  exists s root, prun PPlain pinit (chunk (toks_of t) "") = POk s /\ tree_of s = Some root /\ pstk s = [] /\ outer_html root = outer_html t.
Proof. exact roundtrip_fixed_point_chunked. Qed.
(* the pieces of a text run are always non-empty data, references or comments, whatever the text *)
Theorem C01_chunks_are_text_pieces : forall fuel s data, Forall textlike (chunk_text fuel s data).
Proof. exact chunk_text_textlike. Qed.
(* every run without "<" and "&" is complete (it is a single data piece) *)
Theorem C01_plain_runs_complete : forall p, plain p = true -> complete p.
Proof. exact plain_complete. Qed.
(* multi-root documents: the tree is the invisible wrapper, getHTML prints its inner HTML; when the first pass over the real stream of
   that string meets several top-level nodes (needs_second_pass: it raises MultipleRootNodeException), the wrapped second pass ends
   with an invisible wrapper whose inner HTML - hence getHTML - is the identical string *)
Theorem C01_multiroot_fixed_point : forall r, is_invisible r = true -> sc (hd_ r) = false ->
  Forall InDom (tags_of (bs_ r)) -> Forall GoodTree (tags_of (bs_ r)) -> CompleteK false (bs_ r) "" ->
  let ts := chunk (doc_ptoks r) "" in
  needs_second_pass PPlain ts = true ->
  exists s root, feed PPlain ts (wrap ts) = POk s /\ tree_of s = Some root /\ pstk s = [] /\ is_invisible root = true
                 /\ inner_html root = inner_html r.
Proof. exact multiroot_fixed_point. Qed.
Definition C01_ex_multi := [TData "x "; TStart "a" [("id", Some "1")] false; TData "1"; TEnd "a"; TData " "; TStart "b" [] false; TEntity "amp"; TEnd "b"; TData "tail "].
Example C01_ex_multiroot : exists s r, feed PPlain C01_ex_multi (wrap C01_ex_multi) = POk s /\ tree_of s = Some r /\ is_invisible r = true /\ sc (hd_ r) = false
  /\ Forall InDom (tags_of (bs_ r)) /\ Forall GoodTree (tags_of (bs_ r)) /\ CompleteK false (bs_ r) ""
  /\ needs_second_pass PPlain (chunk (doc_ptoks r) "") = true /\ inner_html r = "x <a id=""1"" >1</a> <b >&amp;</b>tail ".
Proof.
  destruct (feed PPlain C01_ex_multi (wrap C01_ex_multi)) as [s|] eqn:E; [|vm_compute in E; discriminate].
  destruct (tree_of s) as [r|] eqn:Et.
  2:{ vm_compute in E. inversion E; subst. vm_compute in Et. discriminate. }
  exists s, r. split; [reflexivity|]. split; [exact Et|].
  assert (Hg : GoodTree r).
  { apply (parsed_good_tree PPlain C01_ex_multi (wrap C01_ex_multi) s r); auto; unfold C01_ex_multi; repeat constructor; vm_compute; auto. }
  vm_compute in E. inversion E; subst. vm_compute in Et. inversion Et; subst. clear E Et.
  split; [reflexivity|]. split; [reflexivity|]. split; [|split; [|split; [|split]]].
  - repeat (constructor; simpl; auto); intros; try discriminate; auto.
  - exact (GoodTree_children _ _ Hg).
  - vm_compute. tauto.
  - vm_compute. reflexivity.
  - vm_compute. reflexivity.
Qed.

(* ... and so is every run that does not end in a bare "&" and in which every comment opener "<!--" is followed by a "-->"
   (in particular every run without a comment opener): references, lone "<" and "&", closed comments.  The two exclusions are
   the runs of which chunk keeps a piece back.  (chunk follows the tokenizer on runs whose references are ";"-terminated - the
   property's text alphabet; an unterminated "&name" / "&#n" or a bare "&" directly before a tag is read differently by the
   real tokenizer, which is why the per-case LEX-OK comparison, not this theorem, ties chunk to it.) *)
Theorem C01_closed_runs_complete : forall p, ends_amp p = false -> closed_comments p -> complete p.
Proof. exact closed_runs_complete. Qed.
Theorem C01_runs_without_opener_complete : forall p, ends_amp p = false -> no_opener p -> complete p.
Proof. exact no_opener_complete. Qed.
Example C01_incomplete_runs : ~ complete "a&" /\ ~ complete "x<!-- y".
Proof. split; intros H; vm_compute in H; discriminate. Qed.
(* non-vacuity: a parsed tree with references, a comment, lone "<" and "&", a void element, script content containing "<" and a
   class value that is normalised meets all three hypotheses; its real stream is listed *)
Definition C01_ex_ts := [TStart "div" [("id", Some "a"); ("class", Some "k  j")] false; TData "x "; TEntity "amp"; TData " y < 3 & z"; TComment " c ";
                     TStart "br" [] true; TStart "script" [] false; TData "if (a < b) {}"; TEnd "script"; TChar "x41"; TEnd "div"].
Example C01_ex_real_stream : exists s t, feed PPlain C01_ex_ts [] = POk s /\ tree_of s = Some t /\ InDom t /\ GoodTree t /\ CompleteT t
   /\ chunk (toks_of t) "" = [TStart "div" [("id", Some "a"); ("class", Some "k j")] false; TData "x "; TEntity "amp"; TData " y "; TData "<"; TData " 3 "; TData "&"; TData " z"; TComment " c ";
                     TStart "br" [] true; TStart "script" [] false; TData "if (a < b) {}"; TEnd "script"; TChar "x41"; TEnd "div"].
Proof.
  destruct (feed PPlain C01_ex_ts []) as [s|] eqn:E; [|vm_compute in E; discriminate].
  destruct (tree_of s) as [t|] eqn:Et.
  2:{ vm_compute in E. inversion E; subst. vm_compute in Et. discriminate. }
  exists s, t. split; [reflexivity|]. split; [exact Et|].
  assert (Hg : GoodTree t).
  { apply (parsed_good_tree PPlain C01_ex_ts [] s t); auto; unfold C01_ex_ts; repeat constructor; vm_compute; auto. }
  vm_compute in E. inversion E; subst. vm_compute in Et. inversion Et; subst. clear E Et.
  split; [|split; [exact Hg|split]].
  - repeat (constructor; simpl; auto); intros; try discriminate; auto.
  - vm_compute. tauto.
  - vm_compute. reflexivity.
Qed.

(* non-vacuity and the whole chain on a concrete tree with quoted, value-less, boolean, class and style attributes, references,
   a comment, a void element and nesting: parse(chunk(tokens)) re-serialises to the identical string *)
Example C01_ex :
  let t := fst (build_api (SNode "div" [("id", Some "a""b"); ("open", None); ("checked", Some ""); ("class", Some " x  y "); ("style", Some "color:red")] false
                   [SText "x &amp; "; SElem (SNode "br" [] false []); SText "<!--c-->"; SElem (SNode "p" [("title", Some "it's <b>")] false [SText "&#65;"])]) 0 None) in
  outer_html t = "<div id=""a&quot;b"" open checked style=""color: red"" class=""x y"" >x &amp; <br /><!--c--><p title=""it's <b>"" >&#65;</p></div>"
  /\ match prun PPlain pinit (chunk (toks_of t) "") with
     | POk s => option_map outer_html (tree_of s) = Some (outer_html t)
     | PRaise _ => False end.
Proof. vm_compute. split; reflexivity. Qed.
Example C01_ex_dom : InDom (fst (build_api (SNode "div" [] false [SText "x"; SElem (SNode "br" [] false [])]) 0 None)).
Proof. vm_compute. repeat (constructor; simpl; auto); intros; try discriminate; auto. Qed.
