#!/bin/bash
# runs the pinned suite with the hook guard off and checks that all 124 baseline tests pass
unset AHP_VERIF
out=$(mktemp -d /verif/build/baseline.XXXX 2>/dev/null || mktemp -d)
cd /repo && /venv/bin/python -m pytest -ra -q -p no:cacheprovider --timeout=900 --continue-on-collection-errors --junitxml=$out/j.xml > $out/log 2>&1 < /dev/null
python3 - "$out/j.xml" <<'PY'
import json, sys, xml.etree.ElementTree as ET
base = json.load(open('/root/.vp/BASELINE.json'))
want = set(base['stable_pass'])
got = set()
for tc in ET.parse(sys.argv[1]).getroot().iter('testcase'):
    if not list(tc):
        got.add('%s::%s' % (tc.get('classname'), tc.get('name')))
missing = sorted(want - got)
print('baseline passed: %d/%d' % (len(want & got), len(want)))
for m in missing: print('MISSING', m)
sys.exit(1 if missing else 0)
PY
rc=$?
rm -rf "$out"; find /repo -name __pycache__ -type d -prune -exec rm -rf {} + 2>/dev/null
exit $rc
