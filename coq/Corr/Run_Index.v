(* Correspondence driver for C07: a history on an IndexedAdvancedHTMLParser; answers are shown as document-order ranks. *)
From AHP Require Export Model.Base Model.Str Model.Attr Model.Dom Model.Serial Model.Parser Model.Search Model.Index Model.IndexedParser Corr.Run_Parse.

Definition icase := ((bool * bool * bool * bool) * list string * (list token * option (list token)) * list edit * list reconf
                     * bool * list (option nat * query))%type.

Fixpoint rank_in (u : nat) (l : list nat) (i : nat) : nat :=
  match l with [] => 999 | x :: r => if Nat.eqb x u then i else rank_in u r (S i) end.
Fixpoint insert_sorted (x : nat) (l : list nat) : list nat :=
  match l with [] => [x] | y :: r => if Nat.leb x y then x :: l else y :: insert_sorted x r end.
Definition sort_nats (l : list nat) : list nat := fold_right insert_sorted [] l.
Definition show_ires (doc : tag) (as_set : bool) (r : ires) : string :=
  let us := map tuid (all_nodes doc) in
  match r with
  | IList l => let rs := map (fun u => rank_in u us 0) l in
               if as_set then "{" +++ sjoin "," (map nat_to_string (sort_nats rs)) +++ "}" else show_nats rs
  | IOne (Some u) => "E" +++ nat_to_string (rank_in u us 0)
  | IOne None => "None"
  | IUnsupported => "unsupported"
  end.
Definition run_iquery (s : ist) (doc : tag) (sq : option nat * query) : string :=
  let '(sub, q) := sq in
  let subu := match sub with Some r => nth_uid doc r | None => None end in
  let as_set := match q with QAttrValues _ _ => true | _ => false end in
  show_ires doc as_set (indexed_query (icf s) (iix s) doc subu true q) +++ "/"
  +++ show_ires doc as_set (indexed_query (icf s) (iix s) doc subu false q).
Definition run_index (c : icase) : string :=
  let '(fl, attrs, d, edits, reconfs, final, qs) := c in
  let '(f1, f2, f3, f4) := fl in
  let cfg := {| ix_id := f1; ix_name := f2; ix_class := f3; ix_tag := f4 |} in
  let i0 := with_others (map (fun a => (lower a, @nil (string * list nat))) attrs) idx0 in
  match ifeed cfg PIndexed i0 (fst d) (match snd d with Some x => x | None => [] end) with
  | POk (s, ix0) => match tree_of s with
             | Some root =>
                 let st0 := {| icf := cfg; iix := ix0 |} in                          (* the index as parsing leaves it *)
                 let doc := fold_left apply_edit edits root in
                 let st1 := fold_left (apply_reconf doc) reconfs st0 in
                 let st2 := if final then {| icf := icf st1; iix := reindex (icf st1) doc (iix st1) |} else st1 in
                 sjoin (String (ascii_of_nat 31) "") (map (run_iquery st2 doc) qs)
             | None => "no-root"
             end
  | PRaise e => show_exc e
  end.
