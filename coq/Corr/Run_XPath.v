(* Correspondence driver for C14: a document, the start elements (document-order ranks) and a path of steps with predicate ASTs.
   Numbers: IEEE doubles (Coq primitive floats) paired with the exact integer when it is known, so that mod on integral
   operands is computed exactly as Python does (sign of the divisor). *)
From Coq Require Import PrimFloat Uint63.
From AHP Require Export Model.Base Model.Str Model.Attr Model.Dom Model.Serial Model.Parser Model.Search Model.Index Model.XPath Corr.Run_Parse.

Definition fnum := (float * option Z)%type.
Definition float_of_Z (z : Z) : float :=
  let f := PrimFloat.of_uint63 (Uint63.of_Z (Z.abs z)) in if Z.ltb z 0 then PrimFloat.opp f else f.
Definition fz (z : Z) : fnum := (float_of_Z z, Some z).
Definition lift2 (ff : float -> float -> float) (fz' : Z -> Z -> Z) (a b : fnum) : fnum :=
  match snd a, snd b with
  | Some x, Some y => fz (fz' x y)
  | _, _ => (ff (fst a) (fst b), None)
  end.
Definition f_add := lift2 PrimFloat.add Z.add.
Definition f_sub := lift2 PrimFloat.sub Z.sub.
Definition f_mul := lift2 PrimFloat.mul Z.mul.
Definition f_div (a b : fnum) : fnum := (PrimFloat.div (fst a) (fst b), None).
Definition f_mod (a b : fnum) : fnum :=
  match snd a, snd b with Some x, Some y => fz (Z.modulo x y) | _, _ => (PrimFloat.nan, None) end.
Definition f_eqb (a b : fnum) : bool := PrimFloat.eqb (fst a) (fst b).
Definition f_ltb (a b : fnum) : bool := PrimFloat.ltb (fst a) (fst b).
Definition f_leb (a b : fnum) : bool := PrimFloat.leb (fst a) (fst b).
Definition f_zero (a : fnum) : bool := PrimFloat.eqb (fst a) PrimFloat.zero.
Definition f_of_nat (n : nat) : fnum := fz (Z.of_nat n).
Definition is_digit (c : ascii) : bool := let n := nat_of_ascii c in Nat.leb 48 n && Nat.leb n 57.
Fixpoint digits_val (s : string) (acc : Z) : Z :=
  match s with EmptyString => acc | String c r => digits_val r (acc * 10 + Z.of_nat (nat_of_ascii c - 48)) end.
Definition f_of_digits (s : string) : option fnum :=
  if nonempty s && forallb is_digit (chars s) then Some (fz (digits_val s 0)) else None.

Fixpoint rank_in_list (u : nat) (l : list nat) (i : nat) : nat :=
  match l with [] => 999 | x :: r => if Nat.eqb x u then i else rank_in_list u r (S i) end.
Definition xcase := ((list token * option (list token)) * list nat * list xstep)%type.
Definition run_xpath (c : xcase) : string :=
  let '(d, roots, steps) := c in
  match feed PPlain (fst d) (match snd d with Some x => x | None => [] end) with
  | POk s => match tree_of s with
             | Some doc =>
                 let els := all_nodes doc in
                 let start := flat_map (fun r => match nth_error els r with Some t => [t] | None => [] end) roots in
                 match run fnum f_add f_sub f_mul f_div f_mod f_eqb f_ltb f_leb f_zero f_of_nat f_of_digits doc steps start with
                 | XOk l => show_nats (map (fun t => rank_in_list (tuid t) (map tuid els) 0) l)
                 | XErr => "exc"
                 end
             | None => "no-root"
             end
  | PRaise e => show_exc e
  end.
