(* Proofs about Model/XPathCache.v (C15). *)
From AHP Require Import Model.Base Model.XPathCache.

Section ValOnly.
Variable val : Type.
Notation key := nat (only parsing).
Notation cache := (cache val).
Notation get := (@get val).
Notation set := (@set val).

Definition keys (t : list (key * val)) := map fst t.
Definition Inv (MAX : Z) (c : cache) : Prop :=
  NoDup (recent c) /\ NoDup (keys (tbl c)) /\ (forall k, In k (recent c) <-> In k (keys (tbl c)))
  /\ (Z.of_nat (length (recent c)) <= MAX)%Z /\ locked c = false.

Lemma remove_all_In k l x : In x (remove_all k l) <-> In x l /\ x <> k.
Proof. unfold remove_all. rewrite filter_In, negb_true_iff, Nat.eqb_neq. tauto. Qed.
Lemma remove_all_NoDup k l : NoDup l -> NoDup (remove_all k l).
Proof. intros. apply NoDup_filter; auto. Qed.
Lemma NoDup_snoc' (l : list key) u : NoDup l -> ~ In u l -> NoDup (l ++ [u]).
Proof.
  induction l as [|x l IH]; simpl; intros Hd Hn. { constructor; [simpl; tauto|constructor]. }
  inversion Hd; subst. constructor.
  - intro Hi. apply in_app_or in Hi as [Hi|[->|[]]]; auto.
  - apply IH; auto.
Qed.
Lemma r1_props k l : NoDup l ->
  NoDup (remove_all k l ++ [k]) /\ (forall x, In x (remove_all k l ++ [k]) <-> x = k \/ In x l).
Proof.
  intros Hd. split.
  - apply NoDup_snoc'. { now apply remove_all_NoDup. } rewrite remove_all_In. tauto.
  - intros x. rewrite in_app_iff, remove_all_In. simpl.
    destruct (Nat.eq_dec x k); subst; intuition.
Qed.
Lemma keys_upsert k v t x : In x (keys (upsert val k v t)) <-> x = k \/ In x (keys t).
Proof.
  induction t as [|[k' v'] t IH]; simpl. { intuition. }
  destruct (Nat.eqb k k') eqn:E; simpl.
  - apply Nat.eqb_eq in E; subst. intuition.
  - rewrite IH. intuition.
Qed.
Lemma keys_upsert_NoDup k v t : NoDup (keys t) -> NoDup (keys (upsert val k v t)).
Proof.
  induction t as [|[k' v'] t IH]; simpl; intros Hd. { constructor; [simpl; tauto|constructor]. }
  inversion Hd; subst. destruct (Nat.eqb k k') eqn:E; simpl.
  - apply Nat.eqb_eq in E; subst. constructor; auto.
  - apply Nat.eqb_neq in E. constructor; auto. rewrite keys_upsert. intros [->|Hi]; auto.
Qed.
Lemma keys_tdel k t x : In x (keys (tdel val k t)) <-> In x (keys t) /\ x <> k.
Proof.
  unfold keys, tdel. rewrite !in_map_iff. split.
  - intros ([a b] & <- & Hf). apply filter_In in Hf as [Hi Hn]. simpl in *. apply negb_true_iff, Nat.eqb_neq in Hn.
    split; auto. exists (a, b); auto.
  - intros (([a b] & <- & Hi) & Hn). exists (a, b). split; auto. apply filter_In. split; auto.
    simpl. now apply negb_true_iff, Nat.eqb_neq.
Qed.
Lemma keys_tdel_NoDup k t : NoDup (keys t) -> NoDup (keys (tdel val k t)).
Proof.
  induction t as [|[k' v'] t IH]; simpl; intros Hd; auto. inversion Hd; subst.
  destruct (negb (Nat.eqb k' k)) eqn:E; simpl; auto. constructor; auto.
  fold (tdel val k t). rewrite keys_tdel. tauto.
Qed.
Lemma keys_fold_tdel ks : forall t x, In x (keys (fold_left (fun t k' => tdel val k' t) ks t)) <-> In x (keys t) /\ ~ In x ks.
Proof.
  induction ks as [|k ks IH]; intros t x; simpl. { tauto. }
  rewrite IH, keys_tdel. intuition.
Qed.
Lemma keys_fold_tdel_NoDup ks : forall t, NoDup (keys t) -> NoDup (keys (fold_left (fun t k' => tdel val k' t) ks t)).
Proof. induction ks as [|k ks IH]; intros t Hd; simpl; auto. apply IH. now apply keys_tdel_NoDup. Qed.

Lemma NoDup_split_disjoint (l : list key) n : NoDup l ->
  NoDup (skipn n l) /\ (forall x, In x (skipn n l) <-> In x l /\ ~ In x (firstn n l)).
Proof.
  intros Hd. rewrite <- (firstn_skipn n l) in Hd at 1.
  assert (Hd2 : NoDup (skipn n l)).
  { revert Hd. generalize (firstn n l) (skipn n l). clear. induction l as [|a l IH]; simpl; intros l0 H; auto. inversion H; auto. }
  split; auto.
  intros x. split.
  - intros Hi. split. { rewrite <- (firstn_skipn n l). apply in_or_app. auto. }
    intro Hf. revert Hd Hf Hi. generalize (firstn n l) (skipn n l). clear.
    induction l as [|a l IH]; simpl; intros l0 Hd Hf Hi; [tauto|].
    inversion Hd; subst. destruct Hf as [->|Hf]. { apply H1. apply in_or_app. auto. } eauto.
  - intros [Hi Hn]. rewrite <- (firstn_skipn n l) in Hi. apply in_app_or in Hi as [Hi|Hi]; tauto.
Qed.

Lemma filter_len_le {A} (f : A -> bool) l : length (filter f l) <= length l.
Proof. induction l as [|a l IH]; simpl; auto. destruct (f a); simpl; lia. Qed.

Lemma lookup_In k t v : lookup val k t = Some v -> In k (keys t).
Proof. induction t as [|[k' v'] t IH]; simpl; [discriminate|].
  destruct (Nat.eqb k k') eqn:E2; [apply Nat.eqb_eq in E2; auto | right; auto]. Qed.

Theorem inv_get MAX c k : Inv MAX c -> exists c' r, get c k = Done c' r /\ Inv MAX c' /\ tbl c' = tbl c /\ r = lookup val k (tbl c).
Proof.
  intros (H1 & H2 & H3 & H4 & H5). unfold get. rewrite H5. simpl.
  destruct (lookup val k (tbl c)) eqn:E; simpl.
  2:{ eexists _, _. split; [reflexivity|]. repeat split; simpl; auto; apply H3. }
  eexists _, _. split; [reflexivity|]. split; [|split; reflexivity].
  destruct (r1_props k (recent c) H1) as [Hn Hi].
  assert (Hk : In k (recent c)) by (apply H3; eapply lookup_In; eauto).
  split; [exact Hn|]. split; [exact H2|]. split; [|split; [|reflexivity]].
  - intros x. simpl. rewrite Hi. rewrite <- H3. split; [intros [->|Hx]; auto | auto].
  - simpl. rewrite app_length. simpl.
    assert (length (remove_all k (recent c)) + 1 = length (recent c)); [|lia].
    clear - H1 Hk. induction (recent c) as [|a l IH]; simpl in *; [tauto|]. inversion H1; subst.
    destruct (Nat.eqb a k) eqn:E; simpl.
    + apply Nat.eqb_eq in E; subst. fold (remove_all k l).
      assert (remove_all k l = l) as ->; [|lia].
      unfold remove_all. rewrite <- (filter_ext_in (fun _ => true)). { clear. induction l; simpl; congruence. }
      intros x Hx. symmetry. apply negb_true_iff, Nat.eqb_neq. intros ->. auto.
    + apply Nat.eqb_neq in E. destruct Hk as [->|Hk]; [congruence|]. fold (remove_all k l). specialize (IH H3 Hk). lia.
Qed.

Theorem inv_set MAX CLEAR c k v : (0 <= CLEAR < MAX)%Z -> Inv MAX c -> exists c', set MAX CLEAR c k v = Done c' tt /\ Inv MAX c'.
Proof.
  intros Hb (H1 & H2 & H3 & H4 & H5). unfold set. rewrite H5.
  destruct (r1_props k (recent c) H1) as [Hn Hi].
  set (r1 := remove_all k (recent c) ++ [k]) in *.
  set (t1 := upsert val k v (tbl c)).
  assert (Ht1 : forall x, In x r1 <-> In x (keys t1)).
  { intros x. unfold t1. rewrite Hi, keys_upsert, H3. tauto. }
  destruct (MAX <? Z.of_nat (length r1))%Z eqn:E.
  - eexists. split; [reflexivity|]. apply Z.ltb_lt in E.
    assert (Hlen : (Z.of_nat (length r1) <= MAX + 1)%Z).
    { unfold r1. rewrite app_length. simpl.
      assert (length (remove_all k (recent c)) <= length (recent c)) by apply filter_len_le. lia. }
    set (n := (length r1 - Z.to_nat (MAX - CLEAR))%nat).
    assert (Hto : norm (Z.of_nat (length r1) - (MAX - CLEAR)) (length r1) = n).
    { unfold norm. destruct (_ <? 0)%Z eqn:E2; [apply Z.ltb_lt in E2; lia|]. unfold n. lia. }
    assert (Hfrom : norm (-1 * (MAX - CLEAR)) (length r1) = n).
    { unfold norm. destruct (_ <? 0)%Z eqn:E2; [|apply Z.ltb_ge in E2; lia]. unfold n. lia. }
    unfold slice_to, slice_from. rewrite Hto, Hfrom.
    destruct (NoDup_split_disjoint r1 n Hn) as [Hd' Hi'].
    split; [exact Hd'|]. split; [apply keys_fold_tdel_NoDup, keys_upsert_NoDup, H2|]. split; [|split; [|reflexivity]].
    + intros x. simpl. rewrite Hi', keys_fold_tdel, Ht1. tauto.
    + simpl. rewrite skipn_length. unfold n. lia.
  - eexists. split; [reflexivity|]. apply Z.ltb_ge in E. split; [exact Hn|]. split; [apply keys_upsert_NoDup, H2|].
    split; [exact Ht1|]. split; [exact E|reflexivity].
Qed.

End ValOnly.

Section CacheOnly.
Variable val : Type.
Variable compile : nat -> option val.
Notation key := nat (only parsing).
Notation cache := (cache val).
Notation get := (@get val).
Notation set := (@set val).
Notation construct := (construct val compile).
Notation Inv := (Inv val).
Notation inv_get := (inv_get val).
Notation inv_set := (inv_set val).
(* every cached compiled form is the compiled form of its own text *)
Definition Correct (c : cache) : Prop := forall k v, lookup val k (tbl c) = Some v -> compile k = Some v.

(* ---- correctness of the table contents ---- *)
Lemma lookup_upsert k v t k0 : lookup val k0 (upsert val k v t) = if Nat.eqb k0 k then Some v else lookup val k0 t.
Proof.
  induction t as [|[k' v'] t IH]; simpl.
  - destruct (Nat.eqb k0 k); reflexivity.
  - destruct (Nat.eqb k k') eqn:E; simpl.
    + apply Nat.eqb_eq in E; subst. destruct (Nat.eqb k0 k'); reflexivity.
    + rewrite IH. destruct (Nat.eqb k0 k') eqn:E2; auto.
      apply Nat.eqb_eq in E2; subst. rewrite Nat.eqb_sym, E. reflexivity.
Qed.
Lemma lookup_tdel k t k0 v : lookup val k0 (tdel val k t) = Some v -> lookup val k0 t = Some v.
Proof.
  induction t as [|[k' v'] t IH]; simpl; auto.
  destruct (negb (Nat.eqb k' k)) eqn:E; simpl.
  - destruct (Nat.eqb k0 k'); auto.
  - intros H. specialize (IH H). destruct (Nat.eqb k0 k') eqn:E2; auto.
    apply Nat.eqb_eq in E2; subst. apply negb_false_iff, Nat.eqb_eq in E; subst.
    exfalso. clear - H. induction t as [|[a b] t IHt]; simpl in H; [discriminate|].
    destruct (negb (Nat.eqb a k)) eqn:E; simpl in H; auto.
    destruct (Nat.eqb k a) eqn:E2; auto. apply Nat.eqb_eq in E2; subst. rewrite Nat.eqb_refl in E. discriminate.
Qed.
Lemma lookup_fold_tdel ks : forall t k0 v, lookup val k0 (fold_left (fun t k' => tdel val k' t) ks t) = Some v -> lookup val k0 t = Some v.
Proof. induction ks as [|k ks IH]; intros t k0 v H; simpl in *; auto. apply IH in H. eapply lookup_tdel; eauto. Qed.

Lemma correct_set MAX CLEAR c k v c' : compile k = Some v -> Correct c -> set MAX CLEAR c k v = Done c' tt -> Correct c'.
Proof.
  intros Hk Hc. unfold set. destruct (locked c); [discriminate|].
  assert (Hu : forall k0 v0, lookup val k0 (upsert val k v (tbl c)) = Some v0 -> compile k0 = Some v0).
  { intros k0 v0. rewrite lookup_upsert. destruct (Nat.eqb k0 k) eqn:E; [apply Nat.eqb_eq in E; subst; congruence | apply Hc]. }
  destruct (_ <? _)%Z; intros H; inversion H; subst; intros k0 v0 Hl; simpl in Hl; auto.
  apply lookup_fold_tdel in Hl. auto.
Qed.

(* ---- XPathExpression(text): always yields the compiled form of that very text, whatever the cache holds ---- *)
Definition Good MAX (c : cache) := Inv MAX c /\ Correct c.

Theorem construct_spec MAX CLEAR c k : (0 <= CLEAR < MAX)%Z -> Good MAX c ->
  exists c', construct MAX CLEAR c k = Done c' (compile k) /\ Good MAX c'.
Proof.
  intros Hb [Hi Hc]. unfold construct.
  destruct (inv_get MAX c k Hi) as (c1 & r & Hg & Hi1 & Ht & Hr). rewrite Hg.
  assert (Hc1 : Correct c1) by (unfold Correct; rewrite Ht; exact Hc).
  destruct r as [v|].
  - symmetry in Hr. apply Hc in Hr. rewrite Hr. exists c1. split; auto. split; auto.
  - destruct (compile k) as [v|] eqn:Ek.
    + destruct (inv_set MAX CLEAR c1 k v Hb Hi1) as (c2 & Hs & Hi2). rewrite Hs. exists c2. split; auto.
      split; auto. eapply correct_set; eauto.
    + exists c1. split; auto. split; auto.
Qed.

End CacheOnly.

Section Proofs.
Variable val : Type.
Variable res : Type.
Variable compile : nat -> option val.
Variable evalf : val -> nat -> res.
Variable parse_error : nat -> res.
Notation key := nat (only parsing).
Notation cache := (cache val).
Notation get := (@get val).
Notation set := (@set val).
Notation construct := (construct val compile).
Notation step := (step val res compile evalf parse_error).
Notation run := (run val res compile evalf parse_error).
Notation spec_step := (spec_step val res compile evalf parse_error).
Notation spec_run := (spec_run val res compile evalf parse_error).
Notation tstep := (tstep val res compile evalf parse_error).
Notation sched_run := (sched_run val res compile evalf parse_error).
Notation thread := (thread val res).
Notation Inv := (Inv val).
Notation Good := (Good val compile).
Notation Correct := (Correct val compile).
Notation inv_get := (inv_get val).
Notation inv_set := (inv_set val).
Notation construct_spec := (construct_spec val compile).
Notation correct_set := (correct_set val compile).

(* ---- histories ---- *)
Definition SlotRel (sv : list (option val)) (sk : list (option key)) : Prop :=
  forall i, match get_slot sv i, get_slot sk i with
            | None, None => True
            | Some v, Some k => compile k = Some v
            | _, _ => False
            end.

Lemma get_set_slot {A} (l : list (option A)) i a j : get_slot (set_slot l i a) j = if Nat.eqb j i then Some a else get_slot l j.
Proof.
  unfold get_slot. revert l j. induction i as [|i IH]; intros l j.
  - destruct l as [|h t]; destruct j as [|j]; simpl; auto; destruct j; reflexivity.
  - destruct l as [|h t]; destruct j as [|j]; simpl; auto; rewrite IH; auto;
      destruct (Nat.eqb j i); auto; destruct j; reflexivity.
Qed.

Lemma SlotRel_set sv sk i v k : SlotRel sv sk -> compile k = Some v -> SlotRel (set_slot sv i v) (set_slot sk i k).
Proof.
  intros H Hk j. rewrite !get_set_slot. destruct (Nat.eqb j i); auto. apply H.
Qed.

Theorem step_spec MAX CLEAR s sk e : (0 <= CLEAR < MAX)%Z -> Good MAX (ch s) -> SlotRel (slots s) sk ->
  let '(s', x) := step MAX CLEAR s e in
  let '(sk', y) := spec_step sk e in
  x = y /\ Good MAX (ch s') /\ SlotRel (slots s') sk'.
Proof.
  intros Hb Hg Hs. destruct e as [i k|i t|k t]; simpl.
  - destruct (construct_spec MAX CLEAR (ch s) k Hb Hg) as (c' & Hc & Hg'). rewrite Hc.
    destruct (compile k) as [v|] eqn:Ek; simpl; (split; [reflexivity|split; [exact Hg'|]]); auto. now apply SlotRel_set.
  - specialize (Hs i) as Hi. destruct (get_slot (slots s) i) as [v|], (get_slot sk i) as [k|]; try tauto.
    rewrite Hi. auto.
  - destruct (construct_spec MAX CLEAR (ch s) k Hb Hg) as (c' & Hc & Hg'). rewrite Hc.
    destruct (compile k) as [v|] eqn:Ek; simpl; (split; [reflexivity|split; [exact Hg'|]]); auto.
Qed.

Theorem run_spec MAX CLEAR es : (0 <= CLEAR < MAX)%Z -> forall s sk, Good MAX (ch s) -> SlotRel (slots s) sk ->
  map fst (fst (run MAX CLEAR s es)) = spec_run sk es
  /\ Forall (fun rc => Good MAX (snd rc)) (fst (run MAX CLEAR s es)).
Proof.
  intros Hb. induction es as [|e es IH]; intros s sk Hg Hs; simpl; [split; auto|].
  pose proof (step_spec MAX CLEAR s sk e Hb Hg Hs) as H.
  destruct (step MAX CLEAR s e) as [s1 x]. destruct (spec_step sk e) as [sk1 y].
  destruct H as (-> & Hg1 & Hs1). specialize (IH s1 sk1 Hg1 Hs1).
  destruct (run MAX CLEAR s1 es) as [out s2]. simpl in *. destruct IH as [IH1 IH2]. split.
  - now rewrite IH1.
  - constructor; auto.
Qed.

Lemma good0 MAX : (0 < MAX)%Z -> Good MAX cache0.
Proof. intros H. split; [repeat split; simpl; try constructor; try tauto; lia | intros k v; simpl; discriminate]. Qed.
Lemma slotrel0 : SlotRel [] [].
Proof. intros i. unfold get_slot. destruct i; simpl; auto. Qed.

(* every result of a history is what a cache-less evaluation of the same text on the same tree gives *)
Theorem history_independent MAX CLEAR es : (0 <= CLEAR < MAX)%Z ->
  map fst (fst (run MAX CLEAR state0 es)) = spec_run [] es
  /\ Forall (fun rc => Inv MAX (snd rc)) (fst (run MAX CLEAR state0 es)).
Proof.
  intros Hb. destruct (run_spec MAX CLEAR es Hb state0 [] (good0 MAX ltac:(lia)) slotrel0) as [H1 H2].
  split; auto. eapply Forall_impl; [|exact H2]. intros a [Ha _]. exact Ha.
Qed.

(* ---- schedules ---- *)
Definition is_slot_ev (e : event) : bool := match e with EEvalObj _ _ => true | _ => false end.

Definition ThreadOK (es0 : list event) (th : thread) : Prop :=
  exists sk, SlotRel (tslots th) sk /\
  match tpc th with
  | PIdle => out th ++ spec_run sk (todo th) = spec_run [] es0
  | PCompiled e v => compile (ev_key e) = Some v /\ is_slot_ev e = false /\
                       out th ++ spec_run sk (e :: todo th) = spec_run [] es0
  end.

Lemma thread0_ok es : ThreadOK es (thread0 es).
Proof. exists []. split; [apply slotrel0|]. reflexivity. Qed.

Lemma finish_ok es0 th e rest sk :
  is_slot_ev e = false -> SlotRel (tslots th) sk ->
  out th ++ spec_run sk (e :: rest) = spec_run [] es0 ->
  ThreadOK es0 (finish val res evalf parse_error th e (compile (ev_key e)) rest).
Proof.
  intros He Hs Ho. destruct e as [i k|i t|k t]; try discriminate; simpl in *.
  - destruct (compile k) as [v|] eqn:Ek; simpl in Ho.
    + exists (set_slot sk i k). split; [now apply SlotRel_set|]. simpl. now rewrite <- app_assoc.
    + exists sk. split; auto. simpl. now rewrite <- app_assoc.
  - destruct (compile k) as [v|] eqn:Ek; simpl in Ho; exists sk; (split; auto); simpl; now rewrite <- app_assoc.
Qed.

Theorem tstep_ok MAX CLEAR c th es0 : (0 <= CLEAR < MAX)%Z -> Good MAX c -> ThreadOK es0 th ->
  Good MAX (fst (tstep MAX CLEAR c th)) /\ ThreadOK es0 (snd (tstep MAX CLEAR c th)).
Proof.
  intros Hb Hg (sk & Hs & Hp). unfold tstep. destruct th as [td p sl o]. simpl in *.
  destruct p as [|e v].
  - destruct td as [|e rest]; simpl; [split; auto; exists sk; auto|].
    destruct e as [i k|i t|k t].
    + destruct (inv_get MAX c k (proj1 Hg)) as (c1 & r & Hget & Hi1 & Ht & Hr). simpl. rewrite Hget.
      assert (Hg1 : Good MAX c1) by (split; auto; unfold Correct; rewrite Ht; apply Hg).
      destruct r as [v|].
      * symmetry in Hr. apply Hg in Hr. simpl. split; auto.
        pose proof (finish_ok es0 {| todo := ENew i k :: rest; tpc := PIdle; tslots := sl; out := o |} (ENew i k) rest sk eq_refl Hs Hp) as F.
        simpl in F. rewrite Hr in F. exact F.
      * destruct (compile k) as [v|] eqn:Ek; simpl; split; auto.
        -- exists sk. split; auto. simpl. repeat split; auto.
        -- pose proof (finish_ok es0 {| todo := ENew i k :: rest; tpc := PIdle; tslots := sl; out := o |} (ENew i k) rest sk eq_refl Hs Hp) as F.
           simpl in F. rewrite Ek in F. exact F.
    + simpl. split; auto. exists sk. split; auto. simpl. simpl in Hp.
      specialize (Hs i) as Hi. rewrite <- Hp. rewrite <- app_assoc. simpl. f_equal.
      destruct (get_slot sl i) as [v|], (get_slot sk i) as [k|]; try tauto. now rewrite Hi.
    + destruct (inv_get MAX c k (proj1 Hg)) as (c1 & r & Hget & Hi1 & Ht & Hr). simpl. rewrite Hget.
      assert (Hg1 : Good MAX c1) by (split; auto; unfold Correct; rewrite Ht; apply Hg).
      destruct r as [v|].
      * symmetry in Hr. apply Hg in Hr. simpl. split; auto.
        pose proof (finish_ok es0 {| todo := EEval k t :: rest; tpc := PIdle; tslots := sl; out := o |} (EEval k t) rest sk eq_refl Hs Hp) as F.
        simpl in F. rewrite Hr in F. exact F.
      * destruct (compile k) as [v|] eqn:Ek; simpl; split; auto.
        -- exists sk. split; auto. simpl. repeat split; auto.
        -- pose proof (finish_ok es0 {| todo := EEval k t :: rest; tpc := PIdle; tslots := sl; out := o |} (EEval k t) rest sk eq_refl Hs Hp) as F.
           simpl in F. rewrite Ek in F. exact F.
  - destruct Hp as (Hk & He & Ho).
    destruct (inv_set MAX CLEAR c (ev_key e) v Hb (proj1 Hg)) as (c2 & Hset & Hi2). rewrite Hset. simpl. split.
    + split; auto. eapply correct_set; eauto. apply Hg.
    + pose proof (finish_ok es0 {| todo := td; tpc := PCompiled e v; tslots := sl; out := o |} e td sk He Hs Ho) as F.
      rewrite Hk in F. exact F.
Qed.

(* any interleaving of the threads' atomic sections keeps the cache good and every thread on its own sequential results *)
Theorem sched_ok MAX CLEAR sched : (0 <= CLEAR < MAX)%Z -> forall c (ths : list thread) (progs : list (list event)),
  Good MAX c -> Forall2 ThreadOK progs ths ->
  Good MAX (fst (sched_run MAX CLEAR c ths sched)) /\ Forall2 ThreadOK progs (snd (sched_run MAX CLEAR c ths sched)).
Proof.
  intros Hb. induction sched as [|i r IH]; intros c ths progs Hg HF; simpl; [split; auto|].
  destruct (nth_error ths i) as [th|] eqn:En; [|apply IH; auto].
  assert (exists es0, nth_error progs i = Some es0 /\ ThreadOK es0 th) as (es0 & Ep & Hok).
  { clear - HF En. revert i En. induction HF as [|p t ps ts H HF' IH']; intros i En; destruct i; simpl in *; try discriminate.
    - inversion En; subst. eauto. - eauto. }
  pose proof (tstep_ok MAX CLEAR c th es0 Hb Hg Hok) as [G1 G2].
  destruct (tstep MAX CLEAR c th) as [c1 th1]. simpl in *. apply IH; auto.
  clear - HF Ep En G2. revert i Ep En. induction HF as [|p t ps ts H HF' IH']; intros i Ep En; destruct i; simpl in *; try discriminate.
  - inversion Ep; inversion En; subst. constructor; auto.
  - constructor; eauto.
Qed.

(* a thread that has run to completion has produced exactly its sequential, cache-less results *)
Lemma thread_done es0 th : ThreadOK es0 th -> todo th = [] -> tpc th = PIdle -> out th = spec_run [] es0.
Proof. intros (sk & _ & H) Ht Hp. rewrite Hp, Ht in H. simpl in H. now rewrite app_nil_r in H. Qed.

End Proofs.
