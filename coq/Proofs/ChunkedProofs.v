(* the round trip on the token stream the tokenizer really delivers: text runs split into data / reference / comment pieces *)
From Coq Require Import Lia.
From AHP Require Import Model.Base Model.Str Model.Attr Model.Dom Model.Serial Model.Parser Model.RoundTrip Gen.Tables
     Proofs.StrProofs Proofs.CodecProofs Proofs.DomProofs Proofs.ParserProofs Proofs.RoundTripProofs Proofs.CloneProofs Proofs.FragmentProofs Proofs.IndexProofs Proofs.FixPointProofs.

Definition tok_text (t : token) : string :=
  match t with TData d => d | TEntity e => "&" +++ e +++ ";" | TChar c => "&#" +++ c +++ ";" | TComment c => comment_text c | _ => "" end.
Definition textlike (t : token) : Prop :=
  match t with TData d => d <> "" | TEntity _ | TChar _ | TComment _ => True | _ => False end.
Definition texts (ts : list token) : string := concat_s (map tok_text ts).

Definition flush (p : string) : list token := chunk_text (String.length p) p "".
(* the chunker loses nothing of the run (it does when a comment opener is never closed, or the run ends in a bare ampersand) *)
Definition complete (p : string) : Prop := texts (flush p) = p.

(* chunked tokens of a tree *)
Fixpoint ctoks (t : tag) : list token :=
  match t with
  | Tag h bs =>
      if sc h then [TStart (name h) (lexed_attrs (attrs h)) true]
      else TStart (name h) (lexed_attrs (attrs h)) false ::
           (fix go (l : list (block tag)) (p : string) : list token :=
              match l with
              | [] => flush p
              | BText s :: r => if is_raw (name h) then flush p ++ (if String.eqb s "" then [] else [TData s]) ++ go r ""
                                else go r (p +++ s)
              | BTag c :: r => flush p ++ ctoks c ++ go r ""
              end) bs ""
           ++ [TEnd (name h)]
  end.
Fixpoint ckids (raw : bool) (l : list (block tag)) (p : string) : list token :=
  match l with
  | [] => flush p
  | BText s :: r => if raw then flush p ++ (if String.eqb s "" then [] else [TData s]) ++ ckids raw r ""
                    else ckids raw r (p +++ s)
  | BTag c :: r => flush p ++ ctoks c ++ ckids raw r ""
  end.
Lemma ctoks_eq h bs : ctoks (Tag h bs) =
  if sc h then [TStart (name h) (lexed_attrs (attrs h)) true]
  else TStart (name h) (lexed_attrs (attrs h)) false :: ckids (is_raw (name h)) bs "" ++ [TEnd (name h)].
Proof.
  cbn [ctoks]. destruct (sc h); auto. f_equal. f_equal.
  match goal with |- ?f bs "" = _ => assert (G : forall p, f bs p = ckids (is_raw (name h)) bs p) end; [|apply G].
  induction bs as [|[s|c] bs IH]; intros p; cbn [ckids]; auto.
  - rewrite !IH. reflexivity.
  - now rewrite IH.
Qed.
Fixpoint pkids (raw : bool) (l : list (block tag)) : list ptok :=
  match l with [] => [] | BText s :: r => (if raw then PRawText s else PText s) :: pkids raw r | BTag c :: r => toks_of c ++ pkids raw r end.
Lemma toks_of_eq h bs : toks_of (Tag h bs) = if sc h then [PStart h] else PStart h :: pkids (is_raw (name h)) bs ++ [PEnd h].
Proof.
  cbn [toks_of]. destruct (sc h); auto. f_equal. f_equal. induction bs as [|[s|c] bs IH]; cbn [pkids]; auto; now rewrite IH.
Qed.

(* chunk of a tree's token list, followed by anything *)
Lemma flush_nil : flush "" = [].
Proof. reflexivity. Qed.
Lemma chunk_toks_of : forall t rest p, chunk (toks_of t ++ rest) p = flush p ++ ctoks t ++ chunk rest "".
Proof.
  induction t as [h bs IH] using tag_ind'. intros rest p. rewrite ctoks_eq, toks_of_eq. destruct (sc h) eqn:Es.
  - cbn [app chunk]. rewrite Es. reflexivity.
  - cbn [app chunk]. rewrite Es. fold (flush p). f_equal. cbn [app]. f_equal. rewrite <- !app_assoc.
    assert (G : forall q, chunk (pkids (is_raw (name h)) bs ++ [PEnd h] ++ rest) q = ckids (is_raw (name h)) bs q ++ [TEnd (name h)] ++ chunk rest "").
    { induction bs as [|[s|c] bs IHb]; intros q; cbn [ckids pkids app chunk].
      - fold (flush q). reflexivity.
      - destruct (is_raw (name h)); cbn [chunk].
        + fold (flush q). rewrite <- !app_assoc. f_equal. f_equal. apply IHb. exact IH.
        + apply IHb. exact IH.
      - inversion IH as [|? ? Hc IH']; subst. rewrite <- !app_assoc. rewrite Hc. f_equal. f_equal. apply IHb. exact IH'. }
    apply G.
Qed.
Corollary chunk_tree t : chunk (toks_of t) "" = ctoks t.
Proof. rewrite <- (app_nil_r (toks_of t)), chunk_toks_of. cbn [chunk]. rewrite flush_nil, app_nil_r. reflexivity. Qed.

(* ---- the chunker's pieces are text pieces ---- *)
Lemma srev_nonempty d : d <> "" -> srev d <> "".
Proof. destruct d as [|c d]; [congruence|]. intros _ H. apply (f_equal srev) in H. rewrite srev_invol in H. discriminate. Qed.
Lemma flushd_textlike data : Forall textlike (if String.eqb data "" then [] else [TData (srev data)]).
Proof. destruct (String.eqb data "") eqn:E; constructor; auto. simpl. apply srev_nonempty. intros ->. discriminate. Qed.

Lemma chunk_text_textlike : forall fuel s data, Forall textlike (chunk_text fuel s data).
Proof.
  induction fuel as [|k IH]; intros s data; cbn [chunk_text]; [apply flushd_textlike|].
  repeat match goal with
  | |- Forall textlike (chunk_text _ _ _) => apply IH
  | |- Forall textlike (if String.eqb _ "" then [] else [TData (srev _)]) => apply flushd_textlike
  | |- Forall textlike (_ ++ _) => apply Forall_app; split
  | |- Forall textlike (_ :: _) => constructor; [first [exact I | simpl; discriminate] |]
  | |- Forall textlike (match ?x with _ => _ end) => first [is_var x; destruct x | destruct x eqn:?]
  | |- Forall textlike (if ?b then _ else _) => destruct b eqn:?
  end.
Qed.

(* text without "<" and "&" is one data run *)
Definition plain_char (c : ascii) : bool := negb (Ascii.eqb c "<" || Ascii.eqb c "&").
Definition plain (s : string) : bool := forallb plain_char (chars s).
Fixpoint revapp (s acc : string) : string := match s with "" => acc | String c r => revapp r (String c acc) end.
Lemma srev_revapp s : forall acc, srev (revapp s acc) = srev acc +++ s.
Proof.
  induction s as [|c r IH]; intros acc; cbn [revapp]; [now rewrite append_nil_r|]. rewrite IH, srev_cons, append_assoc. reflexivity.
Qed.
Lemma plain_chunk : forall fuel s data, String.length s <= fuel -> plain s = true ->
  chunk_text fuel s data = if String.eqb (revapp s data) "" then [] else [TData (srev (revapp s data))].
Proof.
  induction fuel as [|k IH]; intros s data Hl Hp; destruct s as [|c r]; simpl in Hl; try lia; try reflexivity.
  cbn [chunk_text revapp]. unfold plain in Hp. cbn [chars forallb] in Hp. apply andb_true_iff in Hp as [Hc Hr].
  destruct c as [[] [] [] [] [] [] [] []];
    first [ apply IH; [lia | exact Hr] | exfalso; vm_compute in Hc; discriminate Hc ].
Qed.
Lemma plain_complete p : plain p = true -> complete p.
Proof.
  intros Hp. unfold complete, flush. rewrite (plain_chunk _ p "" (le_n _) Hp).
  pose proof (srev_revapp p "") as H. simpl in H. destruct (String.eqb (revapp p "") "") eqn:E.
  - apply String.eqb_eq in E. rewrite E in H. simpl in H. now subst.
  - unfold texts. simpl. now rewrite append_nil_r.
Qed.

(* ---- text pieces ---- *)

Lemma pstep_textlike t s acc rest : textlike t -> pstk s = acc :: rest ->
  pstep PPlain s t = POk (with_stk s (push1 (BText (tok_text t)) acc :: rest)).
Proof.
  intros Ht Es. destruct t; simpl in Ht; try contradiction; simpl; unfold in_root_text, top_append_text; rewrite ?Es.
  - destruct (String.eqb s0 "") eqn:E; [apply String.eqb_eq in E; contradiction|]. now rewrite push_block_push1.
  - now rewrite push_block_push1.
  - now rewrite push_block_push1.
  - now rewrite push_block_push1.
Qed.
Lemma texts_app a b : texts (a ++ b) = texts a +++ texts b.
Proof. unfold texts. now rewrite map_app, concat_s_app. Qed.
Lemma with_stk_same s acc rest : pstk s = acc :: rest -> with_stk s (acc :: rest) = s.
Proof. destruct s; simpl; intros ->; reflexivity. Qed.

Lemma text_run : forall ts s acc rest, Forall textlike ts -> pstk s = acc :: rest -> sc (fh acc) = false ->
  exists acc', prun PPlain s ts = POk (with_stk s (acc' :: rest))
    /\ sc (fh acc') = false /\ start_tag (fh acc') = start_tag (fh acc) /\ end_tag (fh acc') = end_tag (fh acc)
    /\ name (fh acc') = name (fh acc) /\ uid (fh acc') = uid (fh acc)
    /\ blocks_html (fbs acc') = blocks_html (fbs acc) +++ texts ts.
Proof.
  induction ts as [|t ts IH]; intros s acc rest Hall Es Hsc.
  - exists acc. cbn [prun]. rewrite (with_stk_same s acc rest Es). repeat split; auto. unfold texts. simpl. now rewrite append_nil_r.
  - inversion Hall as [|? ? Ht Hall']; subst. cbn [prun]. rewrite (pstep_textlike t s acc rest Ht Es).
    destruct (push1_shell (BText (tok_text t)) acc Hsc) as (P1 & P2 & P3 & P4).
    destruct (IH (with_stk s (push1 (BText (tok_text t)) acc :: rest)) (push1 (BText (tok_text t)) acc) rest Hall' eq_refl P1)
      as (acc' & Hrun & Q1 & Q2 & Q3 & Q4 & Q5 & Q6).
    exists acc'. rewrite Hrun. split; [reflexivity|]. split; [exact Q1|]. split; [congruence|]. split; [congruence|].
    split; [now rewrite Q4, push1_name|]. split; [now rewrite Q5, push1_uid|].
    rewrite Q6, P4. unfold texts. simpl. now rewrite append_assoc.
Qed.

(* ---- the domain: every maximal text run outside script / style is reproduced in full by the chunker ---- *)
Fixpoint CompleteT (t : tag) : Prop :=
  match t with
  | Tag h bs => sc h = true \/
      (fix go (l : list (block tag)) (p : string) : Prop :=
         match l with
         | [] => complete p
         | BText s :: r => if is_raw (name h) then complete p /\ go r "" else go r (p +++ s)
         | BTag c :: r => complete p /\ CompleteT c /\ go r ""
         end) bs ""
  end.
Fixpoint CompleteK (raw : bool) (l : list (block tag)) (p : string) : Prop :=
  match l with
  | [] => complete p
  | BText s :: r => if raw then complete p /\ CompleteK raw r "" else CompleteK raw r (p +++ s)
  | BTag c :: r => complete p /\ CompleteT c /\ CompleteK raw r ""
  end.
Lemma CompleteT_eq h bs : CompleteT (Tag h bs) <-> (sc h = true \/ CompleteK (is_raw (name h)) bs "").
Proof.
  cbn [CompleteT].
  match goal with |- _ \/ ?f bs "" <-> _ => assert (G : forall p, f bs p <-> CompleteK (is_raw (name h)) bs p) end; [|rewrite G; tauto].
  induction bs as [|[s|c] bs IH]; intros p; cbn [CompleteK]; try tauto.
  - destruct (is_raw (name h)); rewrite IH; tauto.
  - rewrite IH. tauto.
Qed.

Definition SegC (c : tag) : Prop := forall s f r, pstk s = f :: r -> has_root s = true ->
  exists c' nx', prun PPlain s (ctoks c) = POk (set_next (push_top (BTag c') s) nx') /\ outer_html c' = outer_html c.

Lemma blocks_html_cons b l : blocks_html (b :: l) = block_html b +++ blocks_html l.
Proof. reflexivity. Qed.

Lemma kidsc : forall raw l p acc rest s2 nm,
  Forall SegC (tags_of l) -> CompleteK raw l p ->
  sc (fh acc) = false -> name (fh acc) = nm -> pstk s2 = acc :: rest -> has_root s2 = true ->
  exists acc' nx', prun PPlain s2 (ckids raw l p ++ [TEnd nm]) =
      POk (pop_frame {| pstk := acc' :: rest; pdone := pdone s2; has_root := true; pdoctype := pdoctype s2; pnext := nx' |})
    /\ sc (fh acc') = false /\ start_tag (fh acc') = start_tag (fh acc) /\ end_tag (fh acc') = end_tag (fh acc)
    /\ blocks_html (fbs acc') = blocks_html (fbs acc) +++ p +++ blocks_html l /\ name (fh acc') = nm.
Proof.
  induction l as [|[x|c] l IHl]; intros p acc rest s2 nm Hseg Hc Hsc Hn E2 Hr2; cbn [ckids CompleteK] in *.
  - pose proof Hc as Ht. pose proof (chunk_text_textlike (String.length p) p "") as Hl. fold (flush p) in Hl.
    destruct (text_run (flush p) s2 acc rest Hl E2 Hsc) as (a1 & Hrun & Q1 & Q2 & Q3 & Q4 & Q5 & Q6).
    exists a1, (pnext s2). rewrite prun_app, Hrun. cbn [prun]. simpl pstep. unfold handle_end_plain. cbn [pstk with_stk].
    simpl has_name. rewrite Q4, Hn, String.eqb_refl. simpl. rewrite Q4, Hn, String.eqb_refl.
    split; [|split; [exact Q1|split; [exact Q2|split; [exact Q3|split; [|congruence]]]]].
    + f_equal. unfold with_stk. rewrite Hr2. reflexivity.
    + rewrite Q6, Ht. unfold blocks_html at 3. simpl. now rewrite append_nil_r.
  - destruct raw.
    + destruct Hc as [Ht Hc]. pose proof (chunk_text_textlike (String.length p) p "") as Hl. fold (flush p) in Hl.
      assert (Hl' : Forall textlike (flush p ++ (if String.eqb x "" then [] else [TData x]))).
      { apply Forall_app. split; auto. destruct (String.eqb x "") eqn:E; constructor; auto. simpl. intros ->. discriminate. }
      destruct (text_run _ s2 acc rest Hl' E2 Hsc) as (a1 & Hrun & Q1 & Q2 & Q3 & Q4 & Q5 & Q6).
      rewrite app_assoc, <- (app_assoc _ _ [TEnd nm]), prun_app, Hrun.
      destruct (IHl "" a1 rest (with_stk s2 (a1 :: rest)) nm Hseg Hc Q1 (eq_trans Q4 Hn) eq_refl Hr2) as (a2 & nx & Hrun2 & R1 & R2 & R3 & R4 & R5).
      exists a2, nx. split; [exact Hrun2|]. split; [exact R1|]. split; [congruence|]. split; [congruence|]. split; [|exact R5].
      rewrite R4, Q6, texts_app, Ht, blocks_html_cons. cbn [block_html].
      assert (Hx : texts (if String.eqb x "" then [] else [TData x]) = x).
      { destruct (String.eqb x "") eqn:E; [apply String.eqb_eq in E; now subst|]. unfold texts. simpl. now rewrite append_nil_r. }
      rewrite Hx. simpl. now rewrite !append_assoc.
    + destruct (IHl (p +++ x) acc rest s2 nm Hseg Hc Hsc Hn E2 Hr2) as (a2 & nx & Hrun2 & R1 & R2 & R3 & R4 & R5).
      exists a2, nx. split; [exact Hrun2|]. split; [exact R1|]. split; [exact R2|]. split; [exact R3|]. split; [|exact R5].
      rewrite R4, blocks_html_cons. cbn [block_html]. now rewrite !append_assoc.
  - destruct Hc as [Ht [_ Hc]]. pose proof (chunk_text_textlike (String.length p) p "") as Hl. fold (flush p) in Hl. simpl in Hseg. pose proof (Forall_inv Hseg) as Hsc0. pose proof (Forall_inv_tail Hseg) as Hseg'.
    destruct (text_run (flush p) s2 acc rest Hl E2 Hsc) as (a1 & Hrun & Q1 & Q2 & Q3 & Q4 & Q5 & Q6).
    rewrite <- !app_assoc, prun_app, Hrun, prun_app.
    destruct (Hsc0 (with_stk s2 (a1 :: rest)) a1 rest eq_refl Hr2) as (c' & nx' & Hrunc & Hhtml). rewrite Hrunc.
    destruct (push1_shell (BTag c') a1 Q1) as (P1 & P2 & P3 & P4).
    assert (E' : pstk (set_next (push_top (BTag c') (with_stk s2 (a1 :: rest))) nx') = push1 (BTag c') a1 :: rest).
    { unfold set_next, push_top, with_stk. cbn [pstk]. apply push_block_push1. }
    destruct (IHl "" (push1 (BTag c') a1) rest _ nm Hseg' Hc P1 (eq_trans (push1_name _ _) (eq_trans Q4 Hn)) E' Hr2) as (a2 & nx & Hrun2 & R1 & R2 & R3 & R4 & R5).
    exists a2, nx. split; [exact Hrun2|]. split; [exact R1|]. split; [congruence|]. split; [congruence|]. split; [|exact R5].
    rewrite R4, P4, Q6, Ht, blocks_html_cons. cbn [block_html]. rewrite Hhtml. simpl. now rewrite !append_assoc.
Qed.

Lemma CompleteK_children raw : forall l p, CompleteK raw l p -> Forall CompleteT (tags_of l).
Proof.
  induction l as [|[x|c] l IH]; intros p H; cbn [CompleteK] in H; simpl.
  - constructor.
  - destruct raw; [destruct H as [_ H]|]; eapply IH; eauto.
  - destruct H as [_ [Hc H]]. constructor; eauto.
Qed.

Theorem segc : forall t, InDom t -> GoodTree t -> CompleteT t -> SegC t.
Proof.
  induction t as [h bs IH] using tag_ind'. intros Hd Hg Hc s f r Es Hr.
  inversion Hd as [h' bs' Hlow Hvoid Hsc Hall]; subst.
  unfold GoodTree in Hg. rewrite all_nodes_unfold in Hg. inversion Hg as [|? ? [Hb Hi] Hrest]; subst. cbn [hd_] in Hb, Hi.
  destruct (start_tag_reattrs h (pnext s) (Some (uid (fh f))) Hb Hi) as [Hst Het].
  rewrite ctoks_eq. destruct (sc h) eqn:Esc.
  - exists (Tag (mk_hdr (pnext s) (name h) (reattrs (attrs h)) true (Some (uid (fh f))) the_doc) [BText ""]), (S (pnext s)). split.
    + cbn [prun]. simpl pstep. unfold handle_start. rewrite Hlow. rewrite make_tag_eq. rewrite Hr. cbn [negb]. rewrite Es. simpl orb.
      unfold push_top, set_next, with_stk. cbn [pstk pdone has_root pdoctype pnext fst snd]. rewrite Es, Hr. reflexivity.
    + rewrite !outer_unfold. cbn [sc mk_hdr]. rewrite Esc. now rewrite Hst, Het.
  - assert (Hnv : is_void (name h) = false) by (destruct (is_void (name h)); auto; specialize (Hvoid eq_refl); congruence).
    apply CompleteT_eq in Hc. destruct Hc as [Hc|Hc]; [congruence|].
    set (h0 := mk_hdr (pnext s) (name h) (reattrs (attrs h)) false (Some (uid (fh f))) the_doc) in *.
    set (s1 := {| pstk := {| fh := h0; fbs := [BText ""] |} :: f :: r; pdone := pdone s; has_root := true; pdoctype := pdoctype s; pnext := S (pnext s) |}).
    assert (Hstep : pstep PPlain s (TStart (name h) (lexed_attrs (attrs h)) false) = POk s1).
    { simpl. unfold handle_start. rewrite Hlow, make_tag_eq, Hr. cbn [negb]. rewrite Es, Hnv. reflexivity. }
    cbn [prun]. rewrite Hstep.
    assert (Hkids : Forall SegC (tags_of bs)).
    { pose proof (CompleteK_children _ _ _ Hc) as Hck. rewrite Forall_forall in IH, Hall, Hck |- *. intros c Hin. apply IH; auto.
      unfold GoodTree. rewrite Forall_forall in Hrest |- *. intros x Hx. apply Hrest. apply in_flat_map. eauto. }
    destruct (kidsc (is_raw (name h)) bs "" {| fh := h0; fbs := [BText ""] |} (f :: r) s1 (name h) Hkids Hc eq_refl eq_refl eq_refl eq_refl)
      as (acc' & nx & Hrun & R1 & R2 & R3 & R4 & R5).
    exists (Tag (fh acc') (fbs acc')), nx. split.
    + rewrite Hrun. unfold pop_frame, set_next, push_top, with_stk. cbn [pstk pdone has_root pdoctype pnext s1]. rewrite Es, Hr. reflexivity.
    + rewrite !outer_unfold, R1, R2, R3, R4, Esc. cbn [fh fbs]. rewrite Hst, Het. unfold blocks_html at 1. simpl. reflexivity.
Qed.

(* the whole round trip on the chunked stream *)
Theorem roundtrip_fixed_point_chunked t : InDom t -> GoodTree t -> CompleteT t ->
  exists s root, prun PPlain pinit (chunk (toks_of t) "") = POk s /\ tree_of s = Some root /\ pstk s = [] /\ outer_html root = outer_html t.
Proof.
  intros Hd Hg Hc. rewrite chunk_tree. destruct t as [h bs].
  inversion Hd as [h' bs' Hlow Hvoid Hsc Hall]; subst.
  pose proof Hg as Hg0. unfold GoodTree in Hg. rewrite all_nodes_unfold in Hg. inversion Hg as [|? ? [Hb Hi] Hrest]; subst. cbn [hd_] in Hb, Hi.
  destruct (start_tag_reattrs h 0 None Hb Hi) as [Hst Het].
  rewrite ctoks_eq. destruct (sc h) eqn:Esc.
  - cbn [prun]. simpl pstep. unfold handle_start. rewrite Hlow, make_tag_eq. simpl.
    eexists. eexists. split; [reflexivity|]. split; [reflexivity|]. split; [reflexivity|].
    rewrite !outer_unfold. cbn [sc mk_hdr]. rewrite Esc. fold (reattrs (attrs h)). now rewrite Hst, Het.
  - assert (Hnv : is_void (name h) = false) by (destruct (is_void (name h)); auto; specialize (Hvoid eq_refl); congruence).
    apply CompleteT_eq in Hc. destruct Hc as [Hc|Hc]; [congruence|].
    set (h0 := mk_hdr 0 (name h) (reattrs (attrs h)) false None the_doc) in *.
    set (s1 := {| pstk := [{| fh := h0; fbs := [BText ""] |}]; pdone := None; has_root := true; pdoctype := None; pnext := 1 |}).
    assert (Hstep : pstep PPlain pinit (TStart (name h) (lexed_attrs (attrs h)) false) = POk s1).
    { simpl. unfold handle_start. rewrite Hlow, make_tag_eq. simpl. rewrite Hnv. reflexivity. }
    cbn [prun]. rewrite Hstep.
    assert (Hkids : Forall SegC (tags_of bs)).
    { pose proof (CompleteK_children _ _ _ Hc) as Hck. rewrite Forall_forall in Hall, Hck |- *. intros c Hin. apply segc; auto.
      unfold GoodTree. rewrite Forall_forall in Hrest |- *. intros x Hx. apply Hrest. apply in_flat_map. eauto. }
    destruct (kidsc (is_raw (name h)) bs "" {| fh := h0; fbs := [BText ""] |} [] s1 (name h) Hkids Hc eq_refl eq_refl eq_refl eq_refl)
      as (acc' & nx & Hrun & R1 & R2 & R3 & R4 & R5).
    rewrite Hrun. eexists. exists (Tag (fh acc') (fbs acc')). split; [reflexivity|]. split; [reflexivity|]. split; [reflexivity|].
    rewrite !outer_unfold, R1, R2, R3, R4, Esc. cbn [fh fbs]. rewrite Hst, Het. unfold blocks_html at 1. simpl. reflexivity.
Qed.

