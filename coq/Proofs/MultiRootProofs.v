(* MultiRootProofs.v - the round trip of a multi-root document on its real token stream: the first pass raises, the wrapped second
   pass rebuilds the invisible wrapper with the same inner HTML. *)
From Coq Require Import Lia.
From AHP Require Import Model.Base Model.Str Model.Attr Model.Dom Model.Serial Model.Parser Model.RoundTrip Gen.Tables
     Proofs.StrProofs Proofs.CodecProofs Proofs.DomProofs Proofs.ParserProofs Proofs.RoundTripProofs Proofs.CloneProofs Proofs.FragmentProofs
     Proofs.IndexProofs Proofs.FixPointProofs Proofs.ChunkedProofs.

Lemma chunk_pkids raw : forall bs q, chunk (pkids raw bs) q = ckids raw bs q.
Proof.
  induction bs as [|[s|c] bs IH]; intros q; cbn [pkids ckids chunk].
  - reflexivity.
  - destruct raw; cbn [chunk].
    + fold (flush q). now rewrite IH.
    + apply IH.
  - rewrite chunk_toks_of, IH. reflexivity.
Qed.
Lemma doc_ptoks_invisible r : is_invisible r = true -> doc_ptoks r = pkids false (bs_ r).
Proof.
  intros H. unfold doc_ptoks. rewrite H. destruct r as [h bs]. cbn [bs_]. induction bs as [|[s|c] bs IH]; cbn [pkids]; auto; now rewrite IH.
Qed.

Definition nodecl (t : token) : Prop := match t with TDecl _ => False | _ => True end.
Lemma textlike_nodecl ts : Forall textlike ts -> Forall nodecl ts.
Proof. apply Forall_impl. intros t; destruct t; simpl; tauto. Qed.
Lemma flush_nodecl p : Forall nodecl (flush p).
Proof. apply textlike_nodecl, chunk_text_textlike. Qed.
Lemma ctoks_nodecl : forall t, Forall nodecl (ctoks t).
Proof.
  induction t as [h bs IH] using tag_ind'. rewrite ctoks_eq. destruct (sc h); [repeat constructor|].
  constructor; [exact I|]. apply Forall_app. split; [|repeat constructor].
  generalize "". induction bs as [|[s|c] bs IHb]; intros q; cbn [ckids].
  - apply flush_nodecl.
  - simpl in IH. destruct (is_raw (name h)).
    + apply Forall_app. split; [apply flush_nodecl|]. apply Forall_app. split; [destruct (String.eqb s ""); repeat constructor|]. now apply IHb.
    + now apply IHb.
  - simpl in IH. inversion IH as [|? ? Hc IH']; subst. apply Forall_app. split; [apply flush_nodecl|]. apply Forall_app. split; [exact Hc|]. now apply IHb.
Qed.
Lemma ckids_nodecl raw : forall bs q, Forall nodecl (ckids raw bs q).
Proof.
  induction bs as [|[s|c] bs IH]; intros q; cbn [ckids].
  - apply flush_nodecl.
  - destruct raw; [|apply IH]. apply Forall_app. split; [apply flush_nodecl|]. apply Forall_app. split; [destruct (String.eqb s ""); repeat constructor|apply IH].
  - apply Forall_app. split; [apply flush_nodecl|]. apply Forall_app. split; [apply ctoks_nodecl|apply IH].
Qed.
Lemma wrap_nodecl ts : Forall nodecl ts -> wrap ts = TStart invisible_root_tag [] false :: ts ++ [TEnd invisible_root_tag].
Proof.
  intros H. destruct ts as [|t r]; [reflexivity|]. inversion H as [|? ? Ht Hr]; subst.
  destruct t; try reflexivity; try contradiction.
  destruct r as [|t2 r2]; [reflexivity|]. inversion Hr as [|? ? Ht2 _]; subst. destruct t2; try reflexivity; contradiction.
Qed.

Lemma GoodTree_children h bs : GoodTree (Tag h bs) -> Forall GoodTree (tags_of bs).
Proof.
  unfold GoodTree. rewrite all_nodes_unfold. intros Hg. inversion Hg as [|? ? _ Hrest]; subst.
  rewrite Forall_forall in Hrest |- *. intros c Hc. rewrite Forall_forall. intros x Hx. apply Hrest. apply in_flat_map. eauto.
Qed.

Theorem multiroot_fixed_point r :
  is_invisible r = true -> sc (hd_ r) = false ->
  Forall InDom (tags_of (bs_ r)) -> Forall GoodTree (tags_of (bs_ r)) -> CompleteK false (bs_ r) "" ->
  let ts := chunk (doc_ptoks r) "" in
  needs_second_pass PPlain ts = true ->
  exists s root, feed PPlain ts (wrap ts) = POk s /\ tree_of s = Some root /\ pstk s = [] /\ is_invisible root = true
                 /\ inner_html root = inner_html r.
Proof.
  intros Hinv Hsc Hd Hg Hc ts Hn. unfold ts in *. clear ts. rewrite (doc_ptoks_invisible r Hinv), chunk_pkids in *.
  unfold needs_second_pass in Hn. unfold feed.
  destruct (prun PPlain pinit (ckids false (bs_ r) "")) as [s0|e] eqn:E1; [discriminate|]. destruct e; try discriminate. clear Hn.
  rewrite (wrap_nodecl _ (ckids_nodecl false (bs_ r) "")).
  set (h0 := mk_hdr 0 invisible_root_tag st0 false None the_doc).
  set (s1 := {| pstk := [{| fh := h0; fbs := [BText ""] |}]; pdone := None; has_root := true; pdoctype := None; pnext := 1 |}).
  assert (Hstep : pstep PPlain pinit (TStart invisible_root_tag [] false) = POk s1) by reflexivity.
  cbn [prun]. rewrite Hstep.
  assert (Hkids : Forall SegC (tags_of (bs_ r))).
  { pose proof (CompleteK_children _ _ _ Hc) as Hck. rewrite Forall_forall in Hd, Hg, Hck |- *. intros c Hin. apply segc; auto. }
  destruct (kidsc false (bs_ r) "" {| fh := h0; fbs := [BText ""] |} [] s1 invisible_root_tag Hkids Hc eq_refl eq_refl eq_refl eq_refl)
    as (acc' & nx & Hrun & R1 & R2 & R3 & R4 & Hname).
  rewrite Hrun. eexists. exists (Tag (fh acc') (fbs acc')). split; [reflexivity|]. split; [reflexivity|]. split; [reflexivity|].
  split.
  - unfold is_invisible. cbn [hd_]. rewrite Hname. apply String.eqb_refl.
  - destruct r as [h bs]. cbn [hd_ bs_] in *. unfold inner_html. rewrite R1, Hsc. fold (blocks_html (fbs acc')). fold (blocks_html bs).
    rewrite R4. cbn [fbs]. unfold blocks_html at 1. simpl. reflexivity.
Qed.
