"""Shared driver for C08/C09/C10: operation histories on one element's attribute store.

An operation is a JSON list; `apply_op` runs it on a real AdvancedTag, `coq_op` prints the Coq constructor.
The element under test is an <input> (has linked dot-names incl. boolean ones).
"""
import copy
import pickle

from harness import core
from harness.core import cs, clist, copt

TAG = 'input'


def new_element(origin, attrs=None):
    """origin: 'direct' | 'parsed' | 'cloned' | 'unpickled' ; attrs: list of [name, value|None]"""
    import AdvancedHTMLParser as A
    from AdvancedHTMLParser.Tags import AdvancedTag
    attrs = [(n, v) for n, v in (attrs or [])]
    if origin == 'parsed':
        html = '<' + TAG + ''.join(' %s' % n if v is None else ' %s="%s"' % (n, v.replace('"', '&quot;')) for n, v in attrs) + ' />'
        p = A.AdvancedHTMLParser()
        p.parseStr(html)
        return p.getRoot(), p
    t = AdvancedTag(TAG, attrs)
    if origin == 'cloned':
        return t.cloneNode(), None
    if origin == 'unpickled':
        return pickle.loads(pickle.dumps(t)), None
    return t, None


def apply_op(t, op, other=None):
    """-> result string ('ok' / 'ok:<value>' / 'exc:<Class>')"""
    k = op[0]
    try:
        if k == 'setAttribute':
            t.setAttribute(op[1], op[2])
        elif k == 'setAttributes':
            t.setAttributes(dict(op[1]))
        elif k == 'removeAttribute':
            t.removeAttribute(op[1])
        elif k == 'setitem':
            t.attributes[op[1]] = op[2]
        elif k == 'delitem':
            del t.attributes[op[1]]
        elif k == 'dot':
            setattr(t, op[1], op[2])
        elif k == 'className':
            t.className = op[1]
        elif k == 'addClass':
            t.addClass(op[1])
        elif k == 'removeClass':
            r = t.removeClass(op[1])
            return 'ok:' + ('None' if r is None else r)
        elif k == 'styleDot':
            setattr(t.style, op[1], op[2])
        elif k == 'setProperty':
            t.style.setProperty(op[1], op[2])
        elif k == 'setStyle':
            t.setStyle(op[1], op[2])
        elif k == 'setStyles':
            t.setStyles(dict(op[1]))
        elif k == 'styleAssign':
            t.style = op[1]
        elif k == 'styleCopy':
            src = other
            t.style = src.style
        elif k == 'read':
            w = op[1]
            if w == 'startTag':
                t.getStartTag()
            elif w == 'items':
                list(t.attributes.items())
            elif w == 'keys':
                list(t.attributes.keys())
            elif w == 'repr':
                repr(t.attributes)
            elif w == 'has':
                t.hasAttribute(op[2])
            elif w == 'get':
                t.getAttribute(op[2])
        else:
            raise AssertionError('unknown op %r' % (op,))
    except Exception as e:
        return 'exc:' + core.exc_name(e)
    return 'ok'


def pv(v):
    """python value -> canonical string"""
    if v is None:
        return 'N'
    if v is True:
        return 'T'
    if v is False:
        return 'F'
    return 'S' + core.hx(str(v))


def coq_op(op):
    k = op[0]
    if k == 'setAttribute':
        return 'OSetAttr %s %s' % (cs(op[1]), copt(op[2]))
    if k == 'setAttributes':
        return 'OSetAttrs %s' % clist('(%s, %s)' % (cs(n), copt(v)) for n, v in op[1])
    if k == 'removeAttribute':
        return 'ORemoveAttr %s' % cs(op[1])
    if k == 'setitem':
        return 'OSetItem %s %s' % (cs(op[1]), copt(op[2]))
    if k == 'delitem':
        return 'ODelItem %s' % cs(op[1])
    if k == 'dot':
        v = op[2]
        if v is True or v is False:
            return 'ODotBool %s %s' % (cs(op[1]), 'true' if v else 'false')
        return 'ODot %s %s' % (cs(op[1]), copt(v))
    if k == 'className':
        return 'OClassName %s' % copt(op[1])
    if k == 'addClass':
        return 'OAddClass %s' % cs(op[1])
    if k == 'removeClass':
        return 'ORemoveClass %s' % cs(op[1])
    if k == 'styleDot':
        return 'OStyleDot %s %s' % (cs(op[1]), cs(op[2]))
    if k == 'setProperty':
        return 'OSetProperty %s %s' % (cs(op[1]), copt(op[2]))
    if k == 'setStyle':
        return 'OSetStyle %s %s' % (cs(op[1]), cs(op[2]))
    if k == 'setStyles':
        return 'OSetStyles %s' % clist('(%s, %s)' % (cs(n), cs(v)) for n, v in op[1])
    if k == 'styleAssign':
        return 'OStyleAssign %s' % cs(op[1])
    if k == 'styleCopy':
        return 'OStyleCopy %s' % cs(op[1])
    if k == 'read':
        w = op[1]
        if w in ('startTag', 'items', 'keys', 'repr'):
            return 'OReadSync'
        if w == 'has':
            return 'OReadHas %s' % cs(op[2])
        if w == 'get':
            return 'OReadGet %s' % cs(op[2])
    raise AssertionError(op)


def start_attrs(t):
    st = t.getStartTag()
    if not isinstance(st, str):
        return '!' + repr(st)
    pre = '<' + TAG
    assert st.startswith(pre), st
    body = st[len(pre):]
    if body.endswith(' />'):
        body = body[:-3]
    elif body.endswith(' >'):
        body = body[:-2]
    return body.strip()


def reparse_attrs(t):
    """attributes obtained by re-parsing the rendered start tag -> list of (name, value)"""
    import AdvancedHTMLParser as A
    p = A.AdvancedHTMLParser()
    p.parseStr(t.getStartTag())
    r = p.getRoot()
    return r


def seed_coq(origin, attrs):
    return '(%s, %s)' % ({'direct': 'ODirect', 'parsed': 'OParsed', 'cloned': 'OCloned', 'unpickled': 'OUnpickled'}[origin],
                         clist('(%s, %s)' % (cs(n), copt(v)) for n, v in attrs))


READ_NAMES = ['id', 'data-x', 'checked', 'title', 'ID', 'CHECKED', 'class', 'style', 'hidden', 'zz']


def snapshot(t, res):
    """the observation both sides print (model: Corr/Run_Attr.v observe); the order of reads matters (lazy sync)"""
    parts = [res]
    parts.append('H' + ''.join('1' if t.hasAttribute(n) else '0' for n in READ_NAMES))
    parts.append('G' + ','.join(pv(t.getAttribute(n)) for n in READ_NAMES))
    items = []
    for n, v in t.attributes.items():
        items.append('%s=%s' % (core.hx(n), pv(v)))
    parts.append('I' + ';'.join(items))
    parts.append('S' + core.hx(start_attrs(t)))
    parts.append('C' + core.hx(t.className))
    parts.append('L' + ','.join(core.hx(c) for c in t.classList))
    parts.append('Y' + core.hx(str(t.style)))
    return '|'.join(parts)


def run_case(case, other=None):
    t, keep = new_element(case['origin'], case['attrs'])
    if case.get('each', True):
        out = [snapshot(t, 'init')]
        for op in case['ops']:
            out.append(snapshot(t, apply_op(t, op, other)))
    else:
        out = [apply_op(t, op, other) for op in case['ops']]
        out.append(snapshot(t, 'end'))
    return '\x1f'.join(out)


def coq_case(case):
    return '(%s, %s, %s)' % (seed_coq(case['origin'], case['attrs']), 'true' if case.get('each', True) else 'false',
                             clist(coq_op(o) for o in case['ops']))


def alternate_each(cases):
    for i, c in enumerate(cases):
        c['each'] = (i % 2 == 0)
    return cases
