(* C16 — reading never writes.  In the model an observer is characterised by the only internal writes observers perform:
   the lazy class/style synchronisation of the attribute mappings it reads (OSync), the pickling of the parser
   (OPickleParser) and the creation of a copy (OCopy).  The correspondence checks, observer by observer, that the raw key
   order of every attribute mapping and the reset hook of the parser change exactly as these steps say.
   snapshot = (getHTML text, (uid, name, parent, owner) of every element in document order, index, reset hook). *)
From AHP Require Import Model.Base Model.Str Model.Attr Model.Dom Model.Serial Model.Search Model.Index Model.Observe Model.Parser
     Proofs.AttrProofs Proofs.DomProofs Proofs.IndexProofs Proofs.ObserveProofs Proofs.IndexedParserProofs.

(* any sequence of observers leaves the snapshot unchanged *)
Theorem C16_snapshot_unchanged : forall os s, GoodAttrs (odoc s) -> snapshot (fold_left ostep os s) = snapshot s.
Proof. exact observers_snapshot. Qed.
(* the hypothesis is an invariant of observing (and of every attribute write: AttrProofs.step_inv) *)
Theorem C16_hypothesis_invariant : forall s o, GoodAttrs (odoc s) -> snapshot (ostep s o) = snapshot s /\ GoodAttrs (odoc (ostep s o)).
Proof. exact ostep_snapshot. Qed.
(* every parsed document (any parser class, retry included) meets the hypothesis *)
Theorem C16_parsed_documents_meet_hypothesis : forall cls ts1 ts2 s root, feed cls ts1 ts2 = POk s -> tree_of s = Some root -> GoodAttrs root.
Proof. exact parsed_good_attrs. Qed.
(* the index stays in step: rebuilding it after the observers gives what rebuilding it before gives *)
Theorem C16_index_in_step : forall os s, GoodAttrs (odoc s) -> forall c i, reindex c (odoc (fold_left ostep os s)) i = reindex c (odoc s) i.
Proof. exact observers_index. Qed.
(* the parser can parse again: the reset hook survives, pickling included; the pickled state is the copy without it *)
Theorem C16_parser_reusable : forall os s, ohas_reset (fold_left ostep os s) = ohas_reset s.
Proof. exact observers_keep_reset. Qed.
Theorem C16_pickle_works_on_a_copy : forall s, snd (parser_getstate s) = s /\ ohas_reset (fst (parser_getstate s)) = false.
Proof. intros s. split; reflexivity. Qed.
(* the one write readers perform is idempotent, and no attribute read can tell whether it has happened *)
Theorem C16_sync_idempotent : forall s, KeysOK s -> sync (sync s) = sync s.
Proof. exact sync_idempotent. Qed.
Theorem C16_reads_blind_to_sync : forall n s, KeysOK s -> snd (getAttribute n (sync s)) = snd (getAttribute n s).
Proof. exact getAttribute_sync. Qed.
Theorem C16_class_style_untouched : forall s, classes (sync s) = classes s /\ sty (sync s) = sty s.
Proof. intros s. split; [apply classes_sync | apply sty_sync]. Qed.

(* non-vacuity: a document with class and style attributes meets the hypothesis; synchronising changes its raw keys *)
Definition ex16 : tag :=
  appendChild_here (new_tag 1 "p" (fst (intake [("id", Some "a"); ("class", Some "x y"); ("style", Some "color: red")] st0)) false None None)
                   (new_tag 0 "div" (fst (intake [("class", Some "w")] st0)) false None None).
Example C16_ex : GoodAttrs ex16 /\ raw_keys (fold_left sync_rank [0; 1] ex16) <> raw_keys ex16.
Proof.
  split.
  - unfold GoodAttrs. vm_compute all_nodes. repeat constructor; unfold KeysOK; vm_compute; repeat constructor; simpl; intuition discriminate.
  - vm_compute. discriminate.
Qed.
