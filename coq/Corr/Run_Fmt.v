(* Correspondence driver for C11 / C12: the formatter run on recorded handler calls, possibly several passes. *)
From AHP Require Export Model.Base Model.Str Model.Attr Model.Dom Model.Serial Model.Parser Model.Formatter Corr.Run_Parse.

Definition fcase := (cfg * list (list token * option (list token)))%type.

Definition fmt_one (c : cfg) (d : list token * option (list token)) : string :=
  let '(ts1, ots2) := d in
  let second := fneeds_second c ts1 in
  match ots2, second with
  | None, true => "model-expects-second-pass"
  | Some _, false => "model-expects-no-second-pass"
  | _, _ =>
      match ffeed c ts1 (match ots2 with Some x => x | None => [] end) with
      | POk s => match fget_html c s with Some h => "O" +++ hex h | None => "none" end
      | PRaise e => show_exc e
      end
  end.
Definition run_fmt (c : fcase) : string :=
  let '(cf, docs) := c in sjoin (String (ascii_of_nat 31) "") (map (fmt_one cf) docs).
