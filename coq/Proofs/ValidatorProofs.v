(* C13: the validating parser is the plain parser plus a pure error classifier on (state, token). *)
From AHP Require Import Model.Base Model.Str Model.Attr Model.Dom Model.Parser Gen.Tables Proofs.DomProofs Proofs.ParserProofs.

Definition verr (s : pstate) (t : token) : option pexc :=
  match t with
  | TStart _ a _ => if forallb (fun kv => valid_attr_name (fst kv)) a then None else Some XInvalidAttrName
  | TEnd n => match pstk s with
              | [] => Some XInvalidClose
              | f :: _ => if negb (has_name n (pstk s)) then Some XInvalidClose
                          else if negb (String.eqb (name (fh f)) n) then Some XMissedClose else None
              end
  | _ => None
  end.
Lemma validating_step_classified s t :
  pstep PValidating s t = match verr s t with Some e => PRaise e | None => pstep PPlain s t end.
Proof.
  destruct t as [n a selfc|n|d|e|ch|cm|d|d|p]; cbn [pstep verr]; try reflexivity.
  - unfold handle_start. destruct (forallb (fun kv => valid_attr_name (fst kv)) a); reflexivity.
  - unfold handle_end_validating. destruct (pstk s) as [|f r] eqn:Ek; [reflexivity|].
    destruct (negb (has_name n (f :: r))) eqn:Eh; [reflexivity|].
    destruct (negb (String.eqb (name (fh f)) n)) eqn:En; [reflexivity|].
    apply negb_false_iff, String.eqb_eq in En. symmetry. apply (end_tag_innermost s n f r Ek En).
Qed.
Fixpoint vrun (s : pstate) (ts : list token) : pres pstate :=
  match ts with
  | [] => POk s
  | t :: r => match verr s t with
              | Some e => PRaise e
              | None => match pstep PPlain s t with POk s' => vrun s' r | PRaise e => PRaise e end
              end
  end.
Theorem validating_run_classified : forall ts s, prun PValidating s ts = vrun s ts.
Proof.
  induction ts as [|t ts IH]; intros s; simpl; auto. rewrite validating_step_classified.
  destruct (verr s t); auto. destruct (pstep PPlain s t); auto.
Qed.
(* it raises a validation error exactly when some token is classified as an error in the state reached by then without an
   earlier error (vrun on the prefix succeeds); the error raised is that of this first token *)
Theorem validating_raises_iff : forall ts s e, e <> XMultipleRoot ->
  (prun PValidating s ts = PRaise e <->
   exists pre t post s', ts = pre ++ t :: post /\ vrun s pre = POk s' /\ verr s' t = Some e).
Proof.
  induction ts as [|t ts IH]; intros s e Hne; rewrite validating_run_classified; simpl.
  - split; [discriminate|]. intros (pre & t & post & s' & H & _). destruct pre; discriminate.
  - destruct (verr s t) as [e0|] eqn:Ev.
    + split.
      * intros H. inversion H; subst. exists [], t, ts, s. repeat split; auto.
      * intros (pre & t1 & post & s' & H & Hr & Hv). destruct pre as [|x pre]; simpl in *.
        -- inversion H; subst. inversion Hr; subst. congruence.
        -- inversion H; subst. rewrite Ev in Hr. discriminate.
    + destruct (pstep PPlain s t) as [s1|e1] eqn:Ep.
      * rewrite <- validating_run_classified, (IH s1 e Hne). split.
        -- intros (pre & t1 & post & s' & H & Hr & Hv). exists (t :: pre), t1, post, s'. subst. simpl. rewrite Ep, Ev. repeat split; auto.
        -- intros (pre & t1 & post & s' & H & Hr & Hv). destruct pre as [|x pre]; simpl in *.
           ++ inversion H; subst. inversion Hr; subst. congruence.
           ++ inversion H; subst. rewrite Ev, Ep in Hr. exists pre, t1, post, s'. repeat split; auto.
      * pose proof (pstep_plain_only_multiroot s t e1 Ep). subst e1. split.
        -- intros H. inversion H. congruence.
        -- intros (pre & t1 & post & s' & H & Hr & Hv). destruct pre as [|x pre]; simpl in *.
           ++ inversion H; subst. inversion Hr; subst. congruence.
           ++ inversion H; subst. rewrite Ev, Ep in Hr. discriminate.
Qed.
