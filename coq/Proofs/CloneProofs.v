(* Attribute fidelity of copies (C17, C01): every attribute mapping the constructor builds - parsing, AdvancedTag(name, attrList) -
   is reproduced by its own attribute list (what cloneNode, copy, deepcopy and unpickling replay), provided its style
   declarations are non-degenerate.  On the way: className assignment always yields a well-formed class list. *)
From Coq Require Import Lia.
From AHP Require Import Model.Base Model.Str Model.Attr Gen.Tables Proofs.StrProofs Proofs.AttrProofs Proofs.CodecProofs Proofs.ObserveProofs.

(* collapse_sp on a string: no leading space is dropped when prev_sp = false; result has no two consecutive spaces *)
Fixpoint no_double_sp (s : string) (prev : bool) : Prop :=
  match s with
  | EmptyString => True
  | String c r => (if is_sp c then prev = false else True) /\ no_double_sp r (is_sp c)
  end.
Lemma collapse_no_double s : forall prev, no_double_sp (collapse_sp s prev) prev.
Proof.
  induction s as [|c s IH]; intros prev; simpl; auto. destruct (is_sp c) eqn:E.
  - destruct prev; [apply IH|]. simpl. rewrite E. split; auto.
  - simpl. rewrite E. split; auto.
Qed.
Lemma is_sp_ws c : is_sp c = true -> is_ws c = true.
Proof. unfold is_sp. intros H. apply Ascii.eqb_eq in H. subst. reflexivity. Qed.
Lemma collapse_starts s : starts_ok s -> starts_ok (collapse_sp s false).
Proof.
  destruct s as [|c s]; simpl; auto. intros H. destruct (is_sp c) eqn:E; [apply is_sp_ws in E; congruence|]. simpl. exact H.
Qed.

(* ---- the last character ---- *)
Lemma srev_nonempty s : s <> "" -> srev s <> "".
Proof. destruct s; [congruence|]. intros _. rewrite srev_cons. destruct (srev s); discriminate. Qed.
Lemma ends_ok_app_inv a b : b <> "" -> ends_ok (a +++ b) -> ends_ok b.
Proof.
  unfold ends_ok. rewrite srev_app. intros Hb H. pose proof (srev_nonempty b Hb) as Hn. destruct (srev b); [congruence|]. exact H.
Qed.
Lemma ends_ok_nonempty s : ends_ok s -> s <> "".
Proof. intros H E. subst. exact H. Qed.
Lemma starts_ok_nonempty s : starts_ok s -> s <> "".
Proof. intros H E. subst. exact H. Qed.
Lemma ends_ok_cons c s : s <> "" -> (ends_ok (String c s) <-> ends_ok s).
Proof.
  intros Hs. change (String c s) with (String c "" +++ s). split; [now apply ends_ok_app_inv | apply ends_ok_app].
Qed.
Lemma ends_ok_single c : ends_ok (String c "") <-> is_ws c = false.
Proof. unfold ends_ok. simpl. tauto. Qed.
Lemma collapse_cons c r prev : collapse_sp (String c r) prev =
  if is_sp c then (if prev then collapse_sp r true else String c (collapse_sp r true)) else String c (collapse_sp r false).
Proof. reflexivity. Qed.
Lemma collapse_ends : forall s prev, ends_ok s -> ends_ok (collapse_sp s prev).
Proof.
  induction s as [|c s IH]; intros prev H; [exact H|]. destruct s as [|d s].
  - apply ends_ok_single in H. simpl. destruct (is_sp c) eqn:E; [apply is_sp_ws in E; congruence|]. now apply ends_ok_single.
  - assert (Hs : ends_ok (String d s)) by (apply (ends_ok_cons c); [discriminate | exact H]).
    rewrite collapse_cons. destruct (is_sp c) eqn:E.
    + destruct prev; [apply IH; exact Hs|]. apply ends_ok_cons; [apply ends_ok_nonempty; now apply IH | now apply IH].
    + apply ends_ok_cons; [apply ends_ok_nonempty; now apply IH | now apply IH].
Qed.

(* ---- decomposition into words ---- *)
Lemma no_double_suffix w rest : forall prev, no_double_sp (w +++ String " " rest) prev -> no_double_sp rest true.
Proof. induction w as [|c w IH]; intros prev H; simpl in H; [tauto|]. destruct H as [_ H]. eapply IH; eauto. Qed.
Lemma no_double_true_false s : no_double_sp s true -> no_double_sp s false /\ (match s with String c _ => is_sp c = false | EmptyString => True end).
Proof. destruct s as [|c s]; simpl; auto. destruct (is_sp c); intros [H1 H2]; [discriminate|]. auto. Qed.
Lemma find_c_none sep s : forall pre, find_c sep s pre = None -> no_char sep s.
Proof.
  induction s as [|x s IH]; intros pre H; [reflexivity|]. simpl in H. destruct (Ascii.eqb x sep) eqn:E; [discriminate|].
  apply no_char_cons. split; [now rewrite Ascii.eqb_sym | eauto].
Qed.
Lemma first_not_space_starts s : starts_ok s -> match s with String c _ => is_sp c = false | EmptyString => True end.
Proof. destruct s; simpl; auto. intros H. destruct (is_sp a) eqn:E; auto. apply is_sp_ws in E. congruence. Qed.

Lemma decompose : forall n u, String.length u <= n -> u <> "" -> (match u with String c _ => is_sp c = false | EmptyString => True end) ->
  no_double_sp u false -> ends_ok u ->
  exists cl, cl <> [] /\ Forall good_word cl /\ u = join " " cl /\ (match rev cl with w :: _ => ends_ok w | [] => True end).
Proof.
  induction n as [|n IH]; intros u Hl Hne Hf Hd He; [destruct u; simpl in Hl; [congruence|lia]|].
  destruct (find_c " " u "") as [[w rest]|] eqn:E.
  - pose proof (find_c_parts " " u "" w rest E) as Hp. change (srev "") with "" in Hp. cbn [append] in Hp.
    pose proof (find_c_no_sep " " u "" w rest eq_refl E) as Hw.
    assert (Hwne : w <> "").
    { intro Ew. subst w. cbn [append] in Hp. subst u. simpl in Hf. discriminate. }
    assert (Hrne : rest <> "").
    { intro Er. subst rest. rewrite Hp in He. apply (ends_ok_app_inv w (String " " "")) in He; [|discriminate]. apply ends_ok_single in He. discriminate. }
    rewrite Hp in Hd. pose proof (no_double_suffix w rest false Hd) as Hr. apply no_double_true_false in Hr as [Hr1 Hr2].
    assert (Her : ends_ok rest).
    { rewrite Hp in He. change (String " " rest) with (String " " "" +++ rest) in He. rewrite <- app_assoc_s in He. eapply ends_ok_app_inv; eauto. }
    assert (Hlen : String.length rest <= n).
    { rewrite Hp in Hl. clear - Hl Hwne. destruct w as [|c w]; [congruence|]. simpl in Hl.
      assert (G : forall a b, String.length (a +++ b) = String.length a + String.length b) by (induction a; simpl; auto).
      rewrite G in Hl. simpl in Hl. lia. }
    destruct (IH rest Hlen Hrne Hr2 Hr1 Her) as (cl & Hcne & Hg & Hj & Hlast).
    exists (w :: cl). repeat split; auto; try discriminate.
    + constructor; auto. split; auto.
    + rewrite join_cons by exact Hcne. now rewrite <- Hj.
    + simpl. destruct (rev cl) as [|x r] eqn:Er; [destruct cl; [congruence|]; simpl in Er; destruct (rev cl); discriminate|]. simpl. exact Hlast.
  - apply find_c_none in E. exists [u]. repeat split; auto; try discriminate. constructor; [split; auto|constructor].
Qed.

Theorem words_good_classes v : GoodClasses (words v).
Proof.
  unfold words, stripWordsOnly. destruct (strip_result v) as [E|[Hs He]].
  - rewrite E. simpl. repeat split; auto.
  - set (u := collapse_sp (strip v) false).
    assert (Hus : starts_ok u) by (apply collapse_starts; exact Hs).
    assert (Hue : ends_ok u) by (apply collapse_ends; exact He).
    destruct (decompose (String.length u) u (le_n _) (starts_ok_nonempty u Hus) (first_not_space_starts u Hus)
                        (collapse_no_double (strip v) false) Hue) as (cl & Hne & Hg & Hj & Hlast).
    rewrite Hj, split_join, filter_good; auto. repeat split; auto.
    destruct cl as [|w r]; auto. rewrite Hj in Hus. inversion Hg as [|? ? [Hwne _] _]; subst.
    destruct r; [exact Hus|]. rewrite join_cons in Hus by discriminate. destruct w; [congruence|]. exact Hus.
Qed.


(* ================= mappings built by the constructor ================= *)
Definition entry_ok (kv : string * aval) : Prop :=
  lower (fst kv) = fst kv /\ valid_attr_name (fst kv) = true /\ fst kv <> "class" /\
  match snd kv with
  | AStyleSlot => fst kv = "style"
  | AClassSlot => False
  | ANone => fst kv <> "style" /\ is_binary_string (fst kv) = false
  | AStr x => fst kv <> "style" /\ (is_binary_string (fst kv) = true -> to_boolean_string (Some x) = x)
  end.
Definition Built (s : Attr.st) : Prop :=
  NoDup (keys (dict s)) /\ Forall entry_ok (dict s) /\ GoodClasses (classes s) /\ GoodStyle (sty s)
  /\ (sty s <> [] -> In "style" (keys (dict s))).

Lemma Built_st0 : Built st0.
Proof. repeat split; simpl; auto; try constructor; try congruence. Qed.

Lemma tbs_idem v : to_boolean_string (Some (to_boolean_string v)) = to_boolean_string v.
Proof. unfold to_boolean_string. destruct v as [x|]; [|reflexivity]. destruct (String.eqb (lower x) "false" || String.eqb (lower x) "0"); reflexivity. Qed.

Lemma keys_od_del_sub {V} k (d : list (string * V)) x : In x (keys (od_del k d)) -> In x (keys d).
Proof. apply keys_od_del_In. Qed.

Definition style_ok (v : option string) : Prop := Forall decl_ok (split ";" (strip (match v with Some x => x | None => "" end))).

Lemma entry_ok_style : entry_ok ("style", AStyleSlot).
Proof. repeat split; try reflexivity. discriminate. Qed.
Lemma ensure_style_Built_parts s : NoDup (keys (dict s)) -> Forall entry_ok (dict s) ->
  NoDup (keys (dict (ensure_style s))) /\ Forall entry_ok (dict (ensure_style s)) /\ sty (ensure_style s) = sty s /\ classes (ensure_style s) = classes s.
Proof.
  intros Hn Hf. unfold ensure_style. destruct (sty s) eqn:E; simpl; rewrite ?E; repeat split; auto.
  - now apply keys_od_del_NoDup.
  - now apply od_del_Forall.
  - now apply keys_od_set_NoDup.
  - apply od_set_Forall; auto. apply entry_ok_style.
Qed.

Lemma setitem_Built k v s : lower k = k -> valid_attr_name k = true -> (k = "style" -> style_ok v) -> Built s -> Built (fst (setitem k v s)).
Proof.
  intros Hl Hv Hs (Hn & Hf & Hc & Hy & Hk). unfold setitem. rewrite Hl.
  destruct (String.eqb k "style") eqn:Es.
  - apply String.eqb_eq in Es. specialize (Hs Es). unfold style_ok in Hs. set (x := match v with Some x => x | None => "" end) in *.
    set (s1 := ensure_style (with_sty (styleToDict x) s)).
    destruct (ensure_style_Built_parts (with_sty (styleToDict x) s) Hn Hf) as (Hn1 & Hf1 & Hy1 & Hc1). fold s1 in Hn1, Hf1, Hy1, Hc1.
    simpl in Hy1, Hc1.
    pose proof (styleToDict_good x Hs) as Hg.
    unfold assign_style.
    set (s2 := with_sty (styleToDict (as_str (sty s1))) s1).
    assert (Hy2 : sty s2 = styleToDict x) by (unfold s2; simpl; rewrite Hy1; now apply styleToDict_as_str).
    destruct (ensure_style_Built_parts s2 Hn1 Hf1) as (Hn3 & Hf3 & Hy3 & Hc3).
    destruct (ensure_style_Built_parts (ensure_style s2) Hn3 Hf3) as (Hn4 & Hf4 & Hy4 & Hc4).
    cbn [fst]. split; [|split; [|split; [|split]]]; cbn [dict classes sty with_dict].
    + now apply keys_od_set_NoDup.
    + apply od_set_Forall; auto. apply entry_ok_style.
    + rewrite Hc4, Hc3. unfold s2. simpl. rewrite Hc1. apply Hc.
    + rewrite Hy4, Hy3, Hy2. exact Hg.
    + intros _. apply keys_od_set_In. now left.
  - destruct (String.eqb k "class") eqn:Ec.
    + cbn [fst]. unfold set_className. split; [|split; [|split; [|split]]]; simpl; auto. apply words_good_classes.
    + assert (Hks : k <> "style") by (intro E; subst; discriminate).
      assert (Hkc : k <> "class") by (intro E; subst; discriminate).
      destruct (is_binary_string k) eqn:Eb; cbn [fst]; (split; [|split; [|split; [|split]]]); cbn [dict classes sty with_dict]; auto;
        try (now apply keys_od_set_NoDup); try (intros H; apply keys_od_set_In; right; auto).
      * apply od_set_Forall; auto. repeat split; auto. intros _. apply tbs_idem.
      * apply od_set_Forall; auto. destruct v as [x|]; repeat split; auto. cbn [fst]. intros H. rewrite H in Eb. discriminate.
Qed.

(* ---- the shape of a synchronised mapping ---- *)
Lemma od_set_absent {V} k (v : V) d : ~ In k (keys d) -> od_set k v d = d ++ [(k, v)].
Proof.
  induction d as [|[k' v'] d IH]; simpl; auto. intros H. destruct (String.eqb k k') eqn:E.
  - apply String.eqb_eq in E. subst. tauto.
  - f_equal. apply IH. tauto.
Qed.
Lemma od_del_app_r {V} k (d e : list (string * V)) : ~ In k (keys e) -> od_del k (d ++ e) = od_del k d ++ e.
Proof.
  intros He. induction d as [|[k' v'] d IH]; simpl.
  - now apply od_del_absent.
  - destruct (String.eqb k k'); auto. now rewrite IH.
Qed.
Lemma od_get_app_l {V} k (d e : list (string * V)) v : od_get k d = Some v -> od_get k (d ++ e) = Some v.
Proof. induction d as [|[k' v'] d IH]; simpl; [discriminate|]. destruct (String.eqb k k'); auto. Qed.
Lemma od_get_In {V} k (d : list (string * V)) : In k (keys d) -> exists v, od_get k d = Some v /\ In (k, v) d.
Proof.
  induction d as [|[k' v'] d IH]; simpl; [tauto|]. intros [->|H].
  - rewrite String.eqb_refl. eauto.
  - destruct (String.eqb k k') eqn:E; [apply String.eqb_eq in E; subst; eauto|]. destruct (IH H) as (v & Hv & Hin). eauto.
Qed.

Definition class_tail (s : Attr.st) : list (string * aval) := match classes s with [] => [] | _ => [("class", AClassSlot)] end.
Definition synced (s : Attr.st) : list (string * aval) :=
  (match sty s with [] => od_del "style" (dict s) | _ => dict s end) ++ class_tail s.
Lemma sync_shape s : ~ In "class" (keys (dict s)) -> (sty s <> [] -> od_get "style" (dict s) = Some AStyleSlot) ->
  dict (sync s) = synced s /\ classes (sync s) = classes s /\ sty (sync s) = sty s.
Proof.
  intros Hc Hs. split; [|split; [apply classes_sync | apply sty_sync]].
  destruct s as [d c y]. unfold sync, synced, class_tail, with_dict. simpl in *.
  assert (Hst : ~ In "style" (keys (match c with [] => [] | _ :: _ => [("class", AClassSlot)] end))).
  { destruct c; simpl; [tauto|]. intros [H|[]]. discriminate. }
  destruct c as [|c0 c]; simpl.
  - rewrite (od_del_absent "class" d Hc). rewrite app_nil_r. destruct y as [|y0 y]; simpl; auto.
    apply od_set_same. apply Hs. discriminate.
  - rewrite (od_set_absent "class" AClassSlot d Hc). destruct y as [|y0 y]; simpl.
    + apply od_del_app_r. exact Hst.
    + apply od_set_same. apply od_get_app_l. apply Hs. discriminate.
Qed.
Lemma Built_no_class s : Built s -> ~ In "class" (keys (dict s)).
Proof.
  intros (_ & Hf & _) H. unfold keys in H. apply in_map_iff in H as ([k a] & Hk & Hin). simpl in Hk. subst k.
  rewrite Forall_forall in Hf. destruct (Hf _ Hin) as (_ & _ & Hne & _). simpl in Hne. congruence.
Qed.
Lemma Built_style_slot s : Built s -> sty s <> [] -> od_get "style" (dict s) = Some AStyleSlot.
Proof.
  intros (_ & Hf & _ & _ & Hk) Hy. destruct (od_get_In "style" (dict s) (Hk Hy)) as (v & Hv & Hin). rewrite Hv. f_equal.
  rewrite Forall_forall in Hf. destruct (Hf _ Hin) as (_ & _ & _ & Hm). simpl in Hm. destruct v; auto; try tauto; destruct Hm as [Hm _]; congruence.
Qed.

(* ---- cloning: replaying the attribute list ---- *)
Lemma setitem_style_fresh acc X D : ~ In "style" (keys (dict acc)) -> styleToDict X = D -> D <> [] -> styleToDict (as_str D) = D ->
  setitem "style" (Some X) acc = ({| dict := dict acc ++ [("style", AStyleSlot)]; classes := classes acc; sty := D |}, ROk).
Proof.
  intros Hk HX HD Hc. destruct acc as [d c y]. unfold setitem. simpl. simpl in Hk.
  unfold assign_style, ensure_style, with_sty, with_dict. simpl. rewrite HX.
  destruct D as [|e D']; [congruence|]. simpl. rewrite Hc. simpl.
  rewrite (od_set_absent "style" AStyleSlot d Hk).
  assert (G : od_set "style" AStyleSlot (d ++ [("style", AStyleSlot)]) = d ++ [("style", AStyleSlot)]).
  { apply od_set_same. clear - Hk. induction d as [|[k v] d IH]; [reflexivity|]. cbn [app od_get].
    destruct (String.eqb "style" k) eqn:E; [exfalso; apply String.eqb_eq in E; subst; apply Hk; now left|].
    apply IH. intro H. apply Hk. now right. }
  rewrite !G. reflexivity.
Qed.

Lemma smem_snoc_other x k l : String.eqb k x = false -> smem x (l ++ [k]) = smem x l.
Proof.
  intros H. induction l as [|y l IH]; cbn [app smem].
  - rewrite String.eqb_sym, H. reflexivity.
  - now rewrite IH.
Qed.
Lemma smem_snoc_same x l : smem x (l ++ [x]) = true.
Proof. induction l as [|y l IH]; cbn [app smem]; [now rewrite String.eqb_refl | rewrite IH; apply orb_true_r]. Qed.

Section CloneOf.
  Variable s : Attr.st.
  Hypothesis Hb : Built s.
  Let f (kv : string * aval) : string * option string := (fst kv, match raw_value s (snd kv) with PStr x => Some x | _ => None end).
  Let P : list (string * aval) := match sty s with [] => od_del "style" (dict s) | _ => dict s end.
  Let Y (P1 : list (string * aval)) : sdict := if smem "style" (keys P1) then sty s else [].

  Lemma P_sub kv : In kv P -> In kv (dict s).
  Proof.
    unfold P. destruct (sty s); auto. clear. induction (dict s) as [|[k v] d IH]; [auto|]. cbn [od_del].
    destruct (String.eqb "style" k); [intros H; now right|]. intros [H|H]; [now left | right; auto].
  Qed.
  Lemma P_nodup : NoDup (keys P).
  Proof. destruct Hb as (Hn & _). unfold P. destruct (sty s); auto. now apply keys_od_del_NoDup. Qed.
  Lemma P_style_iff : In "style" (keys P) <-> sty s <> [].
  Proof.
    destruct Hb as (Hn & _ & _ & _ & Hk). unfold P. destruct (sty s) eqn:E.
    - split; [|congruence]. intros H. exfalso. revert H. now apply od_del_removes.
    - split; [discriminate|]. intros _. apply Hk. discriminate.
  Qed.

  Lemma clone_prefix : forall P2 P1 acc, P = P1 ++ P2 -> dict acc = P1 -> classes acc = [] -> sty acc = Y P1 ->
    exists acc', intake (map f P2) acc = (acc', ROk) /\ dict acc' = P /\ classes acc' = [] /\ sty acc' = Y P.
  Proof.
    induction P2 as [|[k a] P2 IH]; intros P1 acc HP Hd Hc Hy.
    - rewrite app_nil_r in HP. subst P1. exists acc. repeat split; auto.
    - assert (Hin : In (k, a) P) by (rewrite HP; apply in_or_app; right; now left).
      destruct Hb as (_ & Hf & Hgc & Hgs & _). rewrite Forall_forall in Hf.
      destruct (Hf _ (P_sub _ Hin)) as (Hl & Hv & Hkc & Hm). simpl in Hl, Hv, Hkc, Hm.
      assert (Hfresh : ~ In k (keys P1)).
      { pose proof P_nodup as Hn. rewrite HP in Hn. unfold keys in Hn. rewrite map_app in Hn. simpl in Hn.
        intro Hi. apply NoDup_remove_2 in Hn. apply Hn. apply in_or_app. now left. }
      assert (Step : exists acc1, (let k' := lower (fst (f (k, a))) in if valid_attr_name k' then setitem k' (snd (f (k, a))) acc else (acc, ROk)) = (acc1, ROk)
                                  /\ dict acc1 = P1 ++ [(k, a)] /\ classes acc1 = [] /\ sty acc1 = Y (P1 ++ [(k, a)])).
      { unfold f. cbn [fst snd]. rewrite Hl, Hv. unfold Y. unfold keys. rewrite map_app. cbn [map fst].
        destruct a as [|x| |].
        - (* value-less *) destruct Hm as [Hks Hbs]. unfold setitem. rewrite Hl.
          destruct (String.eqb k "style") eqn:E1; [apply String.eqb_eq in E1; congruence|].
          destruct (String.eqb k "class") eqn:E2; [apply String.eqb_eq in E2; congruence|]. rewrite Hbs. simpl.
          eexists. split; [reflexivity|]. cbn [dict classes sty with_dict]. rewrite Hd, Hc, Hy. repeat split; auto.
          + now apply od_set_absent.
          + unfold Y, keys. now rewrite (smem_snoc_other "style" k (map fst P1) E1).
        - (* string value *) destruct Hm as [Hks Hbs]. unfold setitem. rewrite Hl.
          destruct (String.eqb k "style") eqn:E1; [apply String.eqb_eq in E1; congruence|].
          destruct (String.eqb k "class") eqn:E2; [apply String.eqb_eq in E2; congruence|]. simpl.
          destruct (is_binary_string k) eqn:Eb; [rewrite (Hbs eq_refl)|];
            (eexists; split; [reflexivity|]; cbn [dict classes sty with_dict]; rewrite Hd, Hc, Hy; repeat split; auto;
             [now apply od_set_absent | unfold Y, keys; now rewrite (smem_snoc_other "style" k (map fst P1) E1)]).
        - (* the style entry *) subst k. simpl raw_value. cbn iota.
          assert (Hne : sty s <> []) by (apply P_style_iff; unfold keys; apply in_map_iff; exists ("style", AStyleSlot); auto).
          assert (Hcodec : styleToDict (as_str (sty s)) = sty s) by now apply styleToDict_as_str.
          rewrite (setitem_style_fresh acc (as_str (sty s)) (sty s)); auto; [|now rewrite Hd].
          eexists. split; [reflexivity|]. cbn [dict classes sty]. rewrite Hd, Hc. repeat split; auto.
          now rewrite smem_snoc_same.
        - tauto. }
      destruct Step as (acc1 & Hs1 & Hd1 & Hc1 & Hy1).
      destruct (IH (P1 ++ [(k, a)]) acc1) as (acc' & Hi & R); auto; [now rewrite <- app_assoc|].
      exists acc'. split; auto. unfold intake in *. cbn [map fold_left]. rewrite Hs1. exact Hi.
  Qed.
End CloneOf.

Lemma intake_app a b s0 : intake (a ++ b) s0 = match intake a s0 with (s1, ROk) => intake b s1 | e => e end.
Proof.
  unfold intake. rewrite fold_left_app. destruct (fold_left _ a (s0, ROk)) as [s1 r] eqn:E. destruct r; auto;
    induction b as [|x b IH]; simpl; auto.
Qed.
Lemma render_attr_ext t t' kv : classes t = classes t' -> sty t = sty t' -> render_attr t kv = render_attr t' kv.
Proof. intros Hc Hy. unfold render_attr, raw_value, className. destruct (snd kv); rewrite ?Hc, ?Hy; reflexivity. Qed.

Theorem Built_faithful s : Built s -> AttrFaithful s.
Proof.
  intros Hb. pose proof Hb as (Hn & Hf & Hgc & Hgs & Hk).
  destruct (sync_shape s (Built_no_class s Hb) (Built_style_slot s Hb)) as (Hd & Hc & Hy).
  set (P := match sty s with [] => od_del "style" (dict s) | _ => dict s end).
  set (f := fun kv : string * aval => (fst kv, match raw_value s (snd kv) with PStr x => Some x | _ => None end)).
  assert (Hal : attr_list s = map f P ++ map f (class_tail s)).
  { unfold attr_list. rewrite Hd. unfold synced. fold P. now rewrite map_app. }
  destruct (clone_prefix s Hb P [] st0 eq_refl eq_refl eq_refl eq_refl) as (acc & Hi & Hda & Hca & Hya).
  assert (Hya' : sty acc = sty s).
  { rewrite Hya. fold P. destruct (smem "style" (keys P)) eqn:E; auto.
    assert (Hn0 : ~ In "style" (keys P)) by (now apply smem_nIn).
    destruct (sty s) eqn:Es; auto. exfalso. apply Hn0. unfold P. apply Hk. discriminate. }
  (* the clone *)
  assert (Hclone : exists s', fst (clone_attrs s) = s' /\ dict s' = P /\ classes s' = classes s /\ sty s' = sty s).
  { unfold clone_attrs. rewrite Hal, intake_app. fold f P in Hi. rewrite Hi. unfold class_tail. destruct (classes s) as [|c0 cl] eqn:Ec.
    - simpl. exists acc. repeat split; auto.
    - unfold intake. cbn [map fold_left f fst snd raw_value]. change (lower "class") with "class". change (valid_attr_name "class") with true.
      cbn iota. unfold setitem. change (lower "class") with "class". cbn [String.eqb Ascii.eqb Bool.eqb].
      unfold className. rewrite Ec.
      eexists. split; [reflexivity|]. unfold set_className. cbn [dict classes sty with_classes].
      repeat split; auto. apply words_join. exact Hgc. }
  destruct Hclone as (s' & Hs' & Hd' & Hc' & Hy').
  unfold AttrFaithful. rewrite Hs'.
  assert (Hd2 : dict (sync s') = dict (sync s)).
  { destruct (sync_shape s') as (Hds & _ & _).
    - rewrite Hd'. intro H. apply (Built_no_class s Hb). unfold keys in *. apply in_map_iff in H as (kv & Hkv & Hin). apply in_map_iff. exists kv. split; auto.
      now apply (P_sub s).
    - intros Hne. rewrite Hy' in Hne. rewrite Hd'. unfold P. destruct (sty s) eqn:Es; [congruence|]. apply (Built_style_slot s Hb). rewrite Es. discriminate.
    - rewrite Hds, Hd. unfold synced, class_tail. rewrite Hy', Hc', Hd'. f_equal. unfold P. destruct (sty s) eqn:Es; auto.
      apply od_del_absent. now apply od_del_removes. }
  unfold start_attrs. rewrite Hd2. f_equal. apply map_ext. intros kv. apply render_attr_ext.
  - now rewrite !classes_sync.
  - now rewrite !sty_sync.
Qed.

(* every mapping the constructor builds (parsing, AdvancedTag(name, attrList)) is reproduced by its own attribute list *)
Definition attrs_ok (l : list (string * option string)) : Prop := Forall (fun kv => lower (fst kv) = "style" -> style_ok (snd kv)) l.
Lemma intake_Built l : attrs_ok l -> forall s, Built s -> Built (fst (intake l s)) /\ snd (intake l s) = ROk.
Proof.
  unfold intake. induction l as [|[k v] l IH]; intros Ho s Hb; cbn [fold_left]; auto.
  inversion Ho as [|? ? Hkv Ho']; subst. cbn [fst snd] in *.
  destruct (valid_attr_name (lower k)) eqn:Ev.
  - assert (Hb' : Built (fst (setitem (lower k) v s))) by (apply setitem_Built; auto; apply lower_idem).
    assert (Hr : snd (setitem (lower k) v s) = ROk).
    { unfold setitem. destruct (String.eqb (lower (lower k)) "style"); auto. destruct (String.eqb (lower (lower k)) "class"); auto.
      destruct (is_binary_string (lower (lower k))); auto. }
    destruct (setitem (lower k) v s) as [s1 r1]. simpl in Hr, Hb'. subst r1. apply IH; auto.
  - apply IH; auto.
Qed.
Theorem constructor_faithful l : attrs_ok l -> AttrFaithful (fst (intake l st0)).
Proof. intros H. apply Built_faithful. apply (intake_Built l H st0 Built_st0). Qed.
