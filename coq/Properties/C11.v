(* C11 — formatting preserves the document.  The formatter is the parser's skeleton with text rewriting and indentation;
   statements about where text is rewritten and where it is not; proofs in Proofs/FormatterProofs.v. *)
From AHP Require Import Model.Base Model.Str Model.Attr Model.Dom Model.Serial Model.Parser Model.Formatter Gen.Tables
     Proofs.DomProofs Proofs.ParserProofs Proofs.FormatterProofs Proofs.FormatterSimProofs.

(* everything inside pre / code, at any nesting depth, is appended byte for byte *)
Theorem C11_preformatted_verbatim : forall c s d f r, finpre s <> 0 -> d <> "" -> pstk (fps s) = f :: r ->
  fstep c s (TData d) = POk (with_ps s (top_append_text d (fps s))).
Proof. exact data_verbatim_inside_pre. Qed.
(* ... and "inside pre / code" is exactly "an open pre / code element exists" on every reachable state *)
Theorem C11_inpre_is_open_pre : forall c ts, forallb tok_ok ts = true -> forall s s', FInv s -> frun c s ts = POk s' -> FInv s'.
Proof. exact frun_FInv. Qed.
(* script / style content is appended unchanged *)
Theorem C11_raw_verbatim : forall c s d f r, d <> "" -> pstk (fps s) = f :: r -> is_preserve (name (fh f)) = true ->
  fstep c s (TData d) = POk (with_ps s (top_append_text d (fps s))).
Proof. exact data_verbatim_in_preserved. Qed.
(* entity / character references and comments survive verbatim everywhere *)
Theorem C11_refs_comments_verbatim : forall c s f r, pstk (fps s) = f :: r ->
  (forall e, fstep c s (TEntity e) = POk (with_ps s (top_append_text ("&" +++ e +++ ";") (fps s)))) /\
  (forall x, fstep c s (TChar x) = POk (with_ps s (top_append_text ("&#" +++ x +++ ";") (fps s)))) /\
  (forall x, fstep c s (TComment x) = POk (with_ps s (top_append_text ("<!--" +++ x +++ "-->") (fps s)))).
Proof. exact refs_comments_verbatim. Qed.
(* the slim formatters build the very same tree as the normal ones (elements, nesting, attributes, text) *)
Theorem C11_slim_same_tree : forall c ts s, frun c s ts = frun (normal_of c) s ts.
Proof. exact slim_same_tree. Qed.

Example C11_ex :
  let c := {| cindent := "  "; cmini := false; cslim := false; cslimsc := false |} in
  let ts := [TStart "div" [] false; TData "  a  "; TStart "pre" [] false; TStart "span" [] false; TData "  x  "; TEnd "span"; TEnd "pre"; TEnd "div"] in
  match ffeed c ts [] with
  | POk s => fget_html c s = Some (String (ascii_of_nat 10) "" +++ "<div > a " +++ String (ascii_of_nat 10) "" +++ "  <pre ><span >  x  </span></pre>"
                                   +++ String (ascii_of_nat 10) "" +++ "</div>")
  | PRaise _ => False end.
Proof. vm_compute. reflexivity. Qed.

(* the headline: from the same handler calls the formatter builds the tree the parser builds - same elements, nesting, attributes,
   self-closing flags (trel) - with text that differs in white space only; the two fail together (same exception) *)
Theorem C11_same_tree_up_to_white_space : forall c ts1 ts2,
  match feed PPlain ts1 ts2, ffeed c ts1 ts2 with
  | POk p, POk s => orel (tree_of p) (tree_of (fps s))
  | PRaise e, PRaise e' => e = e'
  | _, _ => False
  end.
Proof. exact formatter_tree. Qed.
(* the text rewriting outside pre / code / script / style touches white space only, so text with more than white space is never dropped *)
Theorem C11_rewriting_is_white_space_only : forall d, erase_ws (fmt_data d) = erase_ws d.
Proof. exact fmt_data_erase. Qed.
Theorem C11_text_never_dropped : forall d, fmt_data d = "" -> erase_ws d = "".
Proof. exact fmt_data_keeps. Qed.
Example C11_ex_fmt_data : fmt_data (String (ascii_of_nat 10) "  a" +++ String (ascii_of_nat 9) "b  " +++ String (ascii_of_nat 13) "") = " a b ".
Proof. vm_compute. reflexivity. Qed.

