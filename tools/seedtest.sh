#!/bin/bash
# usage: tools/seedtest.sh <seeded-dir>... : apply each seeded change to /repo, confirm its demo, run the property's quick check, undo.
# prints one line per change:  <dir> demo_patched=<rc> demo_clean=<rc> check=<CAUGHT|MISSED> (<first VIOLATION line>)
cd /verif
for d0 in "$@"; do d=$(realpath "$d0")
  id=$(python3 -c "import json,sys; print(json.load(open('$d/meta.json'))['property'])")
  if ! git -C /repo apply --check "$d/patch.diff" 2>/dev/null; then echo "$d patch-does-not-apply"; continue; fi
  git -C /repo apply "$d/patch.diff"
  cp -f /verif/evidence/$id.json /tmp/seedtest_evidence_$id.json 2>/dev/null   # the evidence of a run on a changed tree is not kept
  PYTHONPATH=/repo timeout 300 /venv/bin/python "$d/demo.py" < /dev/null > /tmp/seed_demo.out 2>&1; rc1=$?
  out=$(AHP_SKIP_COQCHK=1 timeout 1500 ./vcheck $id --tier ${TIER:-quick} 2>&1 | grep -E "^(VIOLATION|OK|KNOWN)" | head -3 | tr '\n' ' ')
  git -C /repo checkout -- .
  [ -f /tmp/seedtest_evidence_$id.json ] && mv -f /tmp/seedtest_evidence_$id.json /verif/evidence/$id.json
  PYTHONPATH=/repo timeout 300 /venv/bin/python "$d/demo.py" < /dev/null > /dev/null 2>&1; rc0=$?
  if echo "$out" | grep -q VIOLATION; then res=CAUGHT; else res=MISSED; fi
  kinds=$(python3 - "$id" <<'PY'
import glob, json, sys
ks = []
for f in sorted(glob.glob('/verif/replays/%s-*.json' % sys.argv[1])):
    try:
        ks.append(json.load(open(f)).get('kind', '?'))
    except Exception:
        ks.append('?')
print(','.join(sorted(set(ks))))
PY
)
  echo "$d demo_patched=$rc1 demo_clean=$rc0 check=$res caught_by=[$kinds]" | sed 's|/verif/||'
  rm -f /verif/replays/$id-*.json
done
