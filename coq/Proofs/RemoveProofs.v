(* C05: remove() refines the reference remove - the parentNode link names the element that has the element among its blocks. *)
From Coq Require Import Lia.
From AHP Require Import Model.Base Model.Str Model.Attr Model.Dom Model.Search Model.Index Spec.RefDoc
     Proofs.DomProofs Proofs.SearchProofs Proofs.IndexProofs Proofs.RefDocProofs.

(* the structural parent search of the reference, on the abstraction of a tree *)
Lemma r_parent_in_sound c : forall t v, r_parent_in c (abs t) = Some v ->
  exists y x, Sub y t /\ In x (tags_of (bs_ y)) /\ tuid x = c /\ tuid y = v.
Proof.
  induction t as [h bs IH] using tag_ind'. intros v H. cbn [abs r_parent_in] in H. rewrite abs_find_child in H.
  destruct (find_child c bs) as [x|] eqn:Ef.
  - simpl in H. inversion H; subst. exists (Tag h bs), x. repeat split; [constructor | now apply (find_child_In c) |].
    clear - Ef. induction bs as [|[s|y] bs IHb]; simpl in Ef; try discriminate; auto.
    destruct (Nat.eqb (tuid y) c) eqn:E; [inversion Ef; subst; now apply Nat.eqb_eq | auto].
  - simpl in H. clear Ef.
    assert (G : exists k, In k (tags_of bs) /\ r_parent_in c (abs k) = Some v).
    { revert H. clear IH. induction bs as [|[s|k] bs IHb]; simpl; intros H.
      - discriminate.
      - destruct (IHb H) as (k & Hk & Hv). eauto.
      - destruct (r_parent_in c (abs k)) as [p|] eqn:E.
        + inversion H; subst. exists k. split; auto.
        + destruct (IHb H) as (k' & Hk & Hv). exists k'. split; auto. }
    destruct G as (k & Hk & Hv). rewrite Forall_forall in IH. destruct (IH k Hk v Hv) as (y & x & Hy & Hx & Hc & Hyv).
    exists y, x. repeat split; auto. eapply Sub_child; eauto.
Qed.
Lemma r_parent_in_complete c : forall t y x, Sub y t -> In x (tags_of (bs_ y)) -> tuid x = c -> r_parent_in c (abs t) <> None.
Proof.
  intros t y x Hs. revert x. induction Hs as [[h bs]|y k h bs Hin Hs IH]; intros x Hx Hc.
  - cbn [abs r_parent_in]. rewrite abs_find_child. simpl in Hx. destruct (find_child_exists x bs Hx) as (ct & Hf). rewrite Hc in Hf. rewrite Hf. discriminate.
  - cbn [abs r_parent_in]. rewrite abs_find_child. destruct (find_child c bs); [discriminate|]. simpl.
    specialize (IH x Hx Hc). clear - Hin IH. induction bs as [|[s|z] bs IHb]; simpl in *; [tauto|auto|].
    destruct Hin as [->|Hin].
    + destruct (r_parent_in c (abs k)); [discriminate|congruence].
    + destruct (r_parent_in c (abs z)); [discriminate|auto].
Qed.

Section Tree.
  Variables (t : tag) (p o : option nat).
  Hypothesis Hwf : WF p o t.
  Hypothesis Hnd : NoDup (uids_of t).

  (* inside one tree: the structural parent is the one the parentNode link names; the root has none *)
  Lemma r_parent_in_spec c x : find c t = Some x -> r_parent_in c (abs t) = (if Nat.eqb c (tuid t) then None else parent (hd_ x)).
  Proof.
    intros Hf. assert (Hs : Sub x t) by (eapply find_Sub; eauto). assert (Hc : tuid x = c) by (apply find_some_in in Hf; tauto).
    destruct (r_parent_in c (abs t)) as [v|] eqn:E.
    - destruct (r_parent_in_sound c t v E) as (y & x' & Hy & Hx' & Hc' & Hv).
      assert (Hsx' : Sub x' t) by (eapply Sub_trans; [|exact Hy]; destruct y as [hy by_]; eapply Sub_child; eauto; constructor).
      pose proof (Sub_find _ _ Hsx' Hnd) as Hf'. rewrite Hc', Hf in Hf'. inversion Hf'; subst x'.
      destruct (Sub_WF _ _ Hy _ _ Hwf) as (py & oy & Hwy). destruct y as [hy by_]. inversion Hwy as [? ? ? ? _ _ _ _ _ Hall]; subst.
      rewrite Forall_forall in Hall. specialize (Hall x Hx'). inversion Hall; subst.
      destruct (Nat.eqb (uid h) (tuid t)) eqn:Ee.
      + (* an element below the root with the uid of the root would be the root itself, a child of one of its sub-elements *)
        exfalso. apply Nat.eqb_eq in Ee. pose proof (Sub_find _ _ Hsx' Hnd) as F1. change (tuid (Tag h bs)) with (uid h) in F1.
        rewrite Ee, find_self in F1. inversion F1 as [Et].
        apply Sub_decompose in Hy as (pre & post & Ed). assert (L := f_equal (@length tag) Ed). rewrite !app_length in L.
        assert (L2 : length (all_nodes t) < length (all_nodes (Tag hy by_))).
        { rewrite (all_nodes_unfold hy by_). cbn [length]. apply le_n_S. rewrite Et. apply (kid_len (Tag h bs) (tags_of by_) Hx'). }
        lia.
      + change (tuid (Tag h bs)) with (uid h). rewrite Ee. cbn [hd_]. rewrite H. reflexivity.
    - destruct (Nat.eqb c (tuid t)) eqn:Ee; auto.
      destruct (Sub_parent _ _ Hs _ _ Hwf) as [->|(y & Hy & Hxy & Hp)].
      + apply Nat.eqb_neq in Ee. congruence.
      + exfalso. apply (r_parent_in_complete c t y x Hy Hxy Hc). exact E.
  Qed.
End Tree.

Lemma r_parent_in_absent c t : ~ In c (uids_of t) -> r_parent_in c (abs t) = None.
Proof.
  intros H. destruct (r_parent_in c (abs t)) as [v|] eqn:E; auto. exfalso.
  destruct (r_parent_in_sound c t v E) as (y & x & Hy & Hx & Hc & _). apply H. rewrite <- Hc.
  assert (Hs : Sub x t) by (eapply Sub_trans; [|exact Hy]; destruct y as [hy by_]; eapply Sub_child; eauto; constructor).
  eapply Sub_uids; eauto. apply tuid_in_uids.
Qed.
Lemma uids_find c : forall t, In c (uids_of t) -> find c t <> None.
Proof.
  induction t as [h bs IH] using tag_ind'. rewrite uids_unfold. simpl. intros [->|Hin]; [now rewrite Nat.eqb_refl|].
  destruct (Nat.eqb (uid h) c); [discriminate|]. induction bs as [|[s|k] bs IHb]; simpl in *; [tauto|auto|].
  inversion IH as [|? ? Hk IH']; subst. apply in_app_or in Hin as [Hin|Hin].
  - specialize (Hk Hin). destruct (find c k); [discriminate|congruence].
  - destruct (find c k); [discriminate|auto].
Qed.
Lemma r_parent_of_absent c w : ~ In c (world_uids w) -> r_parent_of c (absw w) = None.
Proof.
  induction w as [|t w IH]; simpl; auto. intros H. unfold world_uids in H. simpl in H. rewrite in_app_iff in H.
  rewrite r_parent_in_absent by tauto. apply IH. unfold world_uids. tauto.
Qed.
Lemma r_parent_of_spec : forall w c x, Forall (fun t => exists o, WF None o t) w -> NoDup (world_uids w) -> wfind c w = Some x ->
  r_parent_of c (absw w) = parent (hd_ x).
Proof.
  induction w as [|t w IH]; intros c x Hw Hn Hf; [discriminate|]. inversion Hw as [|? ? [o Hwt] Hw']; subst.
  unfold world_uids in Hn. cbn [flat_map] in Hn. pose proof (NoDup_app_l _ _ Hn) as Hnt. pose proof (NoDup_app_r _ _ Hn) as Hnw.
  cbn [wfind] in Hf. cbn [absw map r_parent_of]. destruct (find c t) as [x0|] eqn:Ec.
  - inversion Hf; subst x0. rewrite (r_parent_in_spec t None o Hwt Hnt c x Ec).
    assert (Hrest : r_parent_of c (absw w) = None).
    { apply r_parent_of_absent. intro Hi. eapply NoDup_app_disj; [exact Hn | | exact Hi]. apply find_some_in in Ec. tauto. }
    destruct (Nat.eqb c (tuid t)) eqn:Ee.
    + apply Nat.eqb_eq in Ee. subst c. rewrite find_self in Ec. inversion Ec; subst x. fold (absw w). rewrite Hrest.
      inversion Hwt; subst. simpl. symmetry. assumption.
    + destruct (parent (hd_ x)); auto.
  - rewrite r_parent_in_absent.
    + apply IH; auto.
    + intro Hi. apply (uids_find c t Hi). exact Ec.
Qed.
Lemma WFw_roots w : WFw w -> Forall (fun t => exists o, WF None o t) w.
Proof.
  destruct w as [|r d]; simpl; [constructor|]. intros [Hr Hd]. constructor; [eauto|]. eapply Forall_impl; [|exact Hd]. eauto.
Qed.
(* remove(): detaches the element from the element that has it among its blocks (found through parentNode) *)
Theorem remove_refines w c : WFw w -> NoDup (world_uids w) -> Refines (remove_ w c) (r_remove (absw w) c).
Proof.
  intros Hw Hn. unfold remove_, r_remove. rewrite abs_wfind. destruct (wfind c w) as [[hc bc]|] eqn:Ef; simpl; [|split; reflexivity].
  rewrite (r_parent_of_spec w c (Tag hc bc) (WFw_roots w Hw) Hn Ef). simpl. destruct (parent hc) as [p|]; [|split; reflexivity].
  destruct (removeChild_refines w p c Hw) as [H1 H2]. destruct (removeChild w p c) as [w' r]. destruct (r_removeChildW (absw w) p c) as [rw' rr].
  simpl in *. subst. split; reflexivity.
Qed.
