"""C16 - reading never writes: observers leave documents, identities and indexes untouched."""
import itertools
import copy
import io
import json
import pickle
import re
import sys

from harness import core
from harness.core import cs, clist
from harness.props import parse_common as pc
from harness.props import c02, c06

KINDS = ['plain', 'indexed', 'validating']

# observers: (name, level, needs-arg)
PARSER_OBS = ['getHTML', 'getFormattedHTML', 'getMiniHTML', 'asHTML', 'getRoot', 'getRootNodes', 'getAllNodes', 'body', 'head', 'forms',
              'byTagName', 'byName', 'byClassName', 'byClassNames2', 'byClassNames3', 'byAttr', 'withAttrValues', 'byId', 'customFilter', 'firstCustomFilter',
              'find', 'filter', 'filterOr', 'xpath', 'contains', 'containsUid', 'pickle', 'copyParser', 'deepcopyParser', 'formatterOverOutput', 'reprParser']
ELEM_OBS = ['outerHTML', 'innerHTML', 'innerText', 'textContent', 'text', 'str', 'repr', 'getStartTag', 'getEndTag', 'toHTML',
            'getAttribute', 'hasAttribute', 'attrItems', 'attrKeys', 'attrValues', 'attrIter', 'attrLen', 'attrRepr', 'attrStr', 'attrIn', 'attrGet', 'attrSubscript', 'attrSubscriptMissing', 'attrNodeMap',
            'attributesList', 'attributesDict', 'getAttributesList', 'getAttributesDict', 'className', 'classList', 'classNames', 'hasClass',
            'styleStr', 'styleRead', 'getStyle', 'getStyleDict', 'styleRepr', 'styleCopy', 'styleEq', 'styleEqEmpty', 'styleNe', 'styleEqSelf', 'dotRead',
            'children', 'childNodes', 'childBlocks', 'getChildren', 'getChildBlocks', 'firstChild', 'lastChild', 'firstElementChild',
            'lastElementChild', 'nextSibling', 'previousSibling', 'nextElementSibling', 'previousElementSibling', 'peers', 'getPeers',
            'getPeersByAttr', 'getPeersByClassName', 'getPeersByName', 'parentNode', 'parentElement', 'ownerDocument',
            'getAllChildNodes', 'getAllNodes', 'getAllNodeUids', 'containsE', 'containsUidE', 'inE', 'isTagEqual', 'eq', 'ne', 'hash',
            'cloneNode', 'copy', 'deepcopy', 'pickleE', 'ebyName', 'ebyClassName', 'ebyClassNames2', 'ebyAttr', 'ewithAttrValues', 'ebyId', 'ecustomFilter',
            'efirstCustomFilter', 'efilter', 'exPath', 'tagBlocks', 'textBlocks', 'nodeName', 'tagName', 'uid', 'getUid', 'isSelfClosing',
            'getBlocksTags', 'getBlocksText', 'getParentElementCustomFilter', 'getTagName']
COLL_OBS = ['call', 'cbyName', 'cbyClassName', 'cbyClassNames2', 'cbyAttr', 'cwithAttrValues', 'cbyId', 'ccustomFilter', 'cfilter', 'cfilterAll', 'cxpath',
            'ccontains', 'ccontainsUid', 'cplus', 'cminus', 'crepr', 'cgetAllNodes', 'cgetAllNodeUids']


def gen_op(rng):
    r = rng.random()
    if r < 0.28:
        return ['P', rng.choice(PARSER_OBS), rng.random(), rng.random()]
    if r < 0.88:
        return ['E', rng.choice(ELEM_OBS), rng.random(), rng.random()]
    return ['C', rng.choice(COLL_OBS), rng.random(), rng.random()]


XPATHS = ['//div', '//*[@name="n1"]', '//span/p', '//*[@data-x="1"]/parent::*', '//p[1]', '//div[last()]', '//*[contains(@class, "x")]',
          '/div//span[@id]', '//p[text()="hello"]', '//*[normalize-space()="x"]', '//div/*', '//*/*', '//span/*', '//p/*/*', '//div/*[1]']


class C16(core.Check):
    ID = 'C16'
    RUN_MODULE = 'Corr.Run_Observe'
    RUN_FN = 'run_observe'
    CASE_TYPE = 'ocase'
    SHARD = 60
    RULE = ('histories of 1-30 observing operations drawn from the public read API of parser (%d kinds), element (%d kinds) and collection (%d kinds) '
            'on random documents held by plain, indexed and validating parsers; after each operation the snapshot (serialisation; object identity, uid, '
            'parent and owner of every element; index maps) of the observed document and of a second unrelated document is compared with the one '
            'before; finally the parser parses a new document. non-trivial = history with at least 5 distinct observers' % (len(PARSER_OBS), len(ELEM_OBS), len(COLL_OBS)))
    TRUSTED = ['stdlib html.parser tokenizer (documents enter the model as recorded handler calls)', 'stdlib pickle and copy modules (the hooks they call are modelled)']
    ASSUMPTIONS = []
    PARTIAL = ['observers that run outside the modelled core (XPath evaluation, QueryableList filters, formatter re-parse, pickle of sub-objects) are covered by the '
               'snapshot oracle only; the model covers the observers that write internal state: lazy class/style synchronisation in attribute reads, '
               'parser pickling, copy-returning accessors']

    def generate(self):
        rng = self.rng
        cases = []
        n = 120 if self.tier == 'quick' else 1500
        for i in range(n):
            kind = KINDS[i % 3]
            toks = c06.gen_doc(rng, 10 if self.tier == 'quick' else 25, multi=rng.random() < 0.15)
            # style / boolean / value-less attributes on some elements
            for t in toks:
                if t[0] == 'S' and rng.random() < 0.35:
                    sty = ['style', rng.choice(['color: red', 'color:red;font-weight : bold', ' display:none ; ', '']), '"']
                    if rng.random() < 0.5:
                        t[2].insert(0, sty)
                    else:
                        t[2].append(sty)
                if t[0] == 'S' and rng.random() < 0.15:
                    t[2].append([rng.choice(['hidden', 'checked', 'data-flag']), None, None])
            other = c06.gen_doc(rng, 5)
            ops = [gen_op(rng) for _ in range(rng.randint(1, 30))]
            cases.append(dict(kind=kind, toks=toks, other=other, ops=ops, again=c02.render(c06.gen_doc(rng, 4), None)))
        self.stats.update(histories=n)
        return cases

    # ------------------------------------------------------------------ implementation side
    @staticmethod
    def _mk(kind):
        import AdvancedHTMLParser as A
        from AdvancedHTMLParser.Validator import ValidatingAdvancedHTMLParser
        return {'plain': A.AdvancedHTMLParser, 'indexed': A.IndexedAdvancedHTMLParser, 'validating': ValidatingAdvancedHTMLParser}[kind]()

    @staticmethod
    def snapshot(p):
        root = p.getRoot()
        if root is None:
            return ('no-root',)
        els = pc.preorder(root)
        from AdvancedHTMLParser.Tags import AdvancedTag
        ident = tuple((id(e), e.uid, id(e.parentNode) if e.parentNode is not None else None,
                       id(e.ownerDocument) if e.ownerDocument is not None else None, e.tagName,
                       tuple(id(c) for c in e.children), tuple(id(b) if isinstance(b, AdvancedTag) else b for b in e.blocks), e.text,
                       e.isSelfClosing) for e in els)
        idx = None
        if hasattr(p, '_idMap'):
            idx = (tuple(sorted((k, id(v)) for k, v in p._idMap.items())),
                   tuple(sorted((k, tuple(id(x) for x in v)) for k, v in p._nameMap.items())),
                   tuple(sorted((k, tuple(id(x) for x in v)) for k, v in p._classNameMap.items())),
                   tuple(sorted((k, tuple(id(x) for x in v)) for k, v in p._tagNameMap.items())),
                   tuple(sorted((a, tuple(sorted((str(k), tuple(id(x) for x in v)) for k, v in m.items()))) for a, m in p._otherAttributeIndexes.items())),
                   (p.indexIDs, p.indexNames, p.indexClassNames, p.indexTagNames))
        return (p.getHTML(), ident, idx, p.doctype, p.encoding)

    def _observe(self, p, op, keep):
        """run one observer; returns a short printable result (identity free)"""
        import AdvancedHTMLParser as A
        from AdvancedHTMLParser.Tags import AdvancedTag, TagCollection
        level, name, a, b = op
        els = pc.preorder(p.getRoot())
        e = els[int(a * len(els)) % len(els)]
        e2 = els[int(b * len(els)) % len(els)]
        rank = {id(x): i for i, x in enumerate(els)}

        def show(r):
            if r is None or isinstance(r, (bool, int, str)):
                return repr(r)
            if isinstance(r, AdvancedTag):
                return 'E%s' % rank.get(id(r), '?')
            if isinstance(r, (list, tuple, TagCollection)):
                return '[%s]' % ','.join(show(x) for x in r)
            if isinstance(r, dict):
                return '{%s}' % ','.join('%s:%s' % (k, show(v)) for k, v in r.items())
            return type(r).__name__
        cls = c06.CLASSES[int(b * 4) % 4]
        cls2 = cls + ' ' + c06.CLASSES[(int(b * 4) + 1 + int(b * 12) % 3) % 4]
        cls3 = cls2 + '  ' + c06.CLASSES[(int(b * 4) + 2) % 4]
        nm = c06.NAMEVALS[int(b * 2) % 2]
        dv = c06.DATAVALS[int(b * 4) % 4]
        attr = ['id', 'class', 'style', 'name', 'data-x', 'hidden', 'checked', 'data-flag', 'nothere'][int(b * 9) % 9]
        if level == 'P':
            f = {
                'getHTML': lambda: p.getHTML(), 'getFormattedHTML': lambda: p.getFormattedHTML(), 'getMiniHTML': lambda: p.getMiniHTML(),
                'asHTML': lambda: p.asHTML(), 'getRoot': lambda: p.getRoot(), 'getRootNodes': lambda: p.getRootNodes(),
                'getAllNodes': lambda: p.getAllNodes(), 'body': lambda: p.body, 'head': lambda: p.head, 'forms': lambda: p.forms,
                'byTagName': lambda: p.getElementsByTagName(e.tagName), 'byName': lambda: p.getElementsByName(nm),
                'byClassName': lambda: p.getElementsByClassName(cls), 'byClassNames2': lambda: p.getElementsByClassName(cls2),
                'byClassNames3': lambda: p.getElementsByClassName(cls3), 'byAttr': lambda: p.getElementsByAttr('data-x', dv),
                'withAttrValues': lambda: p.getElementsWithAttrValues('data-x', {dv, '2'}), 'byId': lambda: p.getElementById(c06.IDS[int(b * 8) % 8]),
                'customFilter': lambda: p.getElementsCustomFilter(lambda t: t.hasAttribute('id')),
                'firstCustomFilter': lambda: p.getFirstElementCustomFilter(lambda t: t.hasClass(cls)),
                'find': lambda: p.find(name=nm), 'filter': lambda: p.filter(tagname=e.tagName), 'filterOr': lambda: p.filterOr(name=nm, id='a'),
                'xpath': lambda: p.getElementsByXPathExpression(XPATHS[int(b * len(XPATHS)) % len(XPATHS)]),
                'contains': lambda: p.contains(e), 'containsUid': lambda: p.containsUid(e.uid),
                'pickle': lambda: len(pickle.dumps(p, protocol=int(b * 6) % 6)) > 0,
                'copyParser': lambda: (keep.append(copy.copy(p)), keep[-1].getHTML() == p.getHTML())[1],
                'deepcopyParser': lambda: (keep.append(copy.deepcopy(p)), keep[-1].getHTML() == p.getHTML())[1],
                'formatterOverOutput': lambda: self._fmt(p.getHTML(), b), 'reprParser': lambda: (len(repr(p)) > 0, len(str(p)) > 0),
            }[name]
        elif level == 'E':
            st = lambda: e.style
            f = {
                'outerHTML': lambda: e.outerHTML, 'innerHTML': lambda: e.innerHTML, 'innerText': lambda: e.innerText, 'textContent': lambda: e.textContent,
                'text': lambda: e.text, 'str': lambda: str(e), 'repr': lambda: re.sub(r'0x[0-9a-f]+', '0x', repr(e)), 'getStartTag': lambda: e.getStartTag(), 'getEndTag': lambda: e.getEndTag(),
                'toHTML': lambda: e.toHTML(), 'getAttribute': lambda: e.getAttribute(attr), 'hasAttribute': lambda: e.hasAttribute(attr),
                'attrItems': lambda: list(e.attributes.items()), 'attrKeys': lambda: list(e.attributes.keys()), 'attrValues': lambda: [str(v) for v in e.attributes.values()],
                'attrIter': lambda: [k for k in e.attributes], 'attrLen': lambda: len(e.attributes), 'attrRepr': lambda: repr(e.attributes),
                'attrStr': lambda: str(e.attributes), 'attrIn': lambda: attr in e.attributes, 'attrGet': lambda: str(e.attributes.get(attr)), 'attrSubscript': lambda: str(e.attributes[attr]),
                'attrSubscriptMissing': lambda: (str(e.attributes['lang']), str(e.attributes['spellcheck'])),
                'attrNodeMap': lambda: [str(e.attributesDOM.getNamedItem(attr)), len(e.attributesDOM)],
                'attributesList': lambda: [(k, str(v)) for k, v in e.attributesList], 'attributesDict': lambda: {k: str(v) for k, v in e.attributesDict.items()},
                'getAttributesList': lambda: [(k, str(v)) for k, v in e.getAttributesList()], 'getAttributesDict': lambda: {k: str(v) for k, v in e.getAttributesDict().items()},
                'className': lambda: e.className, 'classList': lambda: list(e.classList), 'classNames': lambda: list(e.classNames), 'hasClass': lambda: e.hasClass(cls),
                'styleStr': lambda: str(st()), 'styleRead': lambda: (st().color, st().fontWeight, st().display), 'getStyle': lambda: e.getStyle('color'),
                'getStyleDict': lambda: e.getStyleDict(), 'styleRepr': lambda: repr(st()), 'styleCopy': lambda: str(copy.copy(st())), 'styleEq': lambda: st() == 'color: red', 'styleEqEmpty': lambda: st() == '', 'styleNe': lambda: (st() != '', st() != 'color: red'),
                'styleEqSelf': lambda: st() == str(st()),
                'dotRead': lambda: (str(e.id), str(e.name), str(e.title), str(e.hidden), str(e.tabIndex)),
                'children': lambda: e.children, 'childNodes': lambda: [x if isinstance(x, AdvancedTag) else str(x) for x in e.childNodes],
                'childBlocks': lambda: [x if isinstance(x, AdvancedTag) else str(x) for x in e.childBlocks], 'getChildren': lambda: e.getChildren(),
                'getChildBlocks': lambda: [x if isinstance(x, AdvancedTag) else str(x) for x in e.getChildBlocks()],
                'firstChild': lambda: show_b(e.firstChild), 'lastChild': lambda: show_b(e.lastChild), 'firstElementChild': lambda: e.firstElementChild,
                'lastElementChild': lambda: e.lastElementChild, 'nextSibling': lambda: show_b(e.nextSibling), 'previousSibling': lambda: show_b(e.previousSibling),
                'nextElementSibling': lambda: e.nextElementSibling, 'previousElementSibling': lambda: e.previousElementSibling,
                'peers': lambda: e.peers, 'getPeers': lambda: e.getPeers(), 'getPeersByAttr': lambda: e.getPeersByAttr('data-x', dv),
                'getPeersByClassName': lambda: e.getPeersByClassName(cls), 'getPeersByName': lambda: e.getPeersByName(nm),
                'parentNode': lambda: e.parentNode, 'parentElement': lambda: e.parentElement, 'ownerDocument': lambda: e.ownerDocument is p,
                'getAllChildNodes': lambda: e.getAllChildNodes(), 'getAllNodes': lambda: e.getAllNodes(), 'getAllNodeUids': lambda: len(e.getAllNodeUids()),
                'containsE': lambda: e.contains(e2), 'containsUidE': lambda: e.containsUid(e2.uid), 'inE': lambda: e2 in e, 'isTagEqual': lambda: e.isTagEqual(e2),
                'eq': lambda: e == e2, 'ne': lambda: e != e2, 'hash': lambda: hash(e) == hash(e),
                'cloneNode': lambda: keep.append(e.cloneNode()) or keep[-1].getStartTag(), 'copy': lambda: keep.append(copy.copy(e)) or keep[-1].getStartTag(),
                'deepcopy': lambda: keep.append(copy.deepcopy(e)) or keep[-1].getStartTag(),
                'pickleE': lambda: len(pickle.dumps(e, protocol=int(b * 6) % 6)) > 0,
                'ebyName': lambda: e.getElementsByName(nm), 'ebyClassName': lambda: e.getElementsByClassName(cls), 'ebyClassNames2': lambda: e.getElementsByClassName(cls2), 'ebyAttr': lambda: e.getElementsByAttr('data-x', dv),
                'ewithAttrValues': lambda: e.getElementsWithAttrValues('data-x', {dv}), 'ebyId': lambda: e.getElementById('a'),
                'ecustomFilter': lambda: e.getElementsCustomFilter(lambda t: t.hasAttribute('name')),
                'efirstCustomFilter': lambda: e.getFirstElementCustomFilter(lambda t: t.hasAttribute('name')),
                'efilter': lambda: e.filter(name=nm), 'exPath': lambda: e.getElementsByXPath(XPATHS[int(b * len(XPATHS)) % len(XPATHS)]),
                'tagBlocks': lambda: e.tagBlocks, 'textBlocks': lambda: [str(x) for x in e.textBlocks], 'nodeName': lambda: e.nodeName, 'tagName': lambda: e.tagName,
                'uid': lambda: e.uid is not None, 'getUid': lambda: e.getUid() == e.uid, 'isSelfClosing': lambda: e.isSelfClosing,
                'getBlocksTags': lambda: [x[0] for x in e.getBlocksTags()], 'getBlocksText': lambda: [str(x[0]) for x in e.getBlocksText()],
                'getParentElementCustomFilter': lambda: e.getParentElementCustomFilter(lambda t: t.tagName == 'div'), 'getTagName': lambda: e.getTagName(),
            }[name]

            def show_b(x):
                return x if (x is None or isinstance(x, AdvancedTag)) else 'T' + str(x)
        else:
            coll = p.getElementsByTagName(e.tagName)
            coll2 = p.getElementsByTagName(e2.tagName)
            f = {
                'call': lambda: coll.all(), 'cbyName': lambda: coll.getElementsByName(nm), 'cbyClassName': lambda: coll.getElementsByClassName(cls), 'cbyClassNames2': lambda: coll.getElementsByClassName(cls2),
                'cbyAttr': lambda: coll.getElementsByAttr('data-x', dv), 'cwithAttrValues': lambda: coll.getElementsWithAttrValues('data-x', {dv}),
                'cbyId': lambda: coll.getElementById('a'), 'ccustomFilter': lambda: coll.getElementsCustomFilter(lambda t: t.hasAttribute('id')),
                'cfilter': lambda: coll.filter(name=nm), 'cfilterAll': lambda: coll.filterAll(name=nm),
                'cxpath': lambda: coll.getElementsByXPath('//p'), 'ccontains': lambda: coll.contains(e2), 'ccontainsUid': lambda: coll.containsUid(e2.uid),
                'cplus': lambda: coll + coll2, 'cminus': lambda: coll - coll2, 'crepr': lambda: len(repr(coll)) > 0,
                'cgetAllNodes': lambda: coll.getAllNodes(), 'cgetAllNodeUids': lambda: len(coll.getAllNodeUids()),
            }[name]
        old = sys.stderr
        sys.stderr = io.StringIO()
        try:
            try:
                with core.time_limit(20):
                    return show(f())
            except core.CaseTimeout:
                raise
            except Exception as ex:
                return 'exc:' + core.exc_name(ex)
        finally:
            sys.stderr = old

    @staticmethod
    def _fmt(html, b):
        from AdvancedHTMLParser import Formatter as F
        cls = [F.AdvancedHTMLFormatter, F.AdvancedHTMLMiniFormatter, F.AdvancedHTMLSlimTagFormatter, F.AdvancedHTMLSlimTagMiniFormatter][int(b * 4) % 4]
        f = cls()
        f.parseStr(html)
        return len(f.getHTML()) >= 0

    def _run(self, case):
        """-> (violation text or None, per-op results, reuse outcome)"""
        p = self._mk(case['kind'])
        if case['kind'] == 'indexed' and len(case['toks']) % 2 == 0:
            # half of the indexed documents also carry an attribute index (a function of the case, so that replays agree)
            p.addIndexOnAttribute('data-x')
        p.parseStr(c02.render(case['toks'], None))
        q = self._mk(case['kind'])
        q.parseStr(c02.render(case['other'], None))
        if p.getRoot() is None:
            return None, [], 'no-root'
        keep = []   # copies made by observers stay alive, so that ids are never reused
        before, before_q = self.snapshot(p), self.snapshot(q)
        results = []
        for i, op in enumerate(case['ops']):
            results.append(self._observe(p, op, keep))
            after, after_q = self.snapshot(p), self.snapshot(q)
            if after != before:
                return 'observer #%d %s/%s changed the document it observed: %s' % (i, op[0], op[1], self._diff(before, after)), results, None
            if after_q != before_q:
                return 'observer #%d %s/%s changed an unrelated document' % (i, op[0], op[1]), results, None
        # fixed battery after the random history: the multi-value attribute queries with every pair of values (two values with hits are
        # what makes a query merge index lists), on every kind of parser; not part of the results compared with the model
        for attrn, vals in (('data-x', c06.DATAVALS), ('name', c06.NAMEVALS + ['zz'])):
            for v1, v2 in itertools.permutations(vals, 2):
                p.getElementsWithAttrValues(attrn, [v1, v2])
                p.getElementsByAttr(attrn, v1)
                if self.snapshot(p) != before:
                    return ('getElementsWithAttrValues(%r, %r) / getElementsByAttr(%r, %r) changed the document it observed: %s'
                            % (attrn, [v1, v2], attrn, v1, self._diff(before, self.snapshot(p)))), results, None
        # the document the caller still holds (its root and elements) when the parser goes on to parse something else
        old_root = p.getRoot()
        old_els = pc.preorder(old_root)
        old_state = [(id(e), e.uid, id(e.parentNode) if e.parentNode is not None else None, id(e.ownerDocument) if e.ownerDocument is not None else None,
                      e.tagName, tuple(id(c) for c in e.children), e.text) for e in old_els]
        old_html = old_root.outerHTML
        try:
            p.parseStr(case['again'])
            reuse = 'ok:' + p.getHTML()
        except Exception as ex:
            reuse = 'exc:' + core.exc_name(ex)
        new_state = [(id(e), e.uid, id(e.parentNode) if e.parentNode is not None else None, id(e.ownerDocument) if e.ownerDocument is not None else None,
                      e.tagName, tuple(id(c) for c in e.children), e.text) for e in old_els]
        if new_state != old_state or old_root.outerHTML != old_html:
            return 'parsing another document with the same parser changed the document parsed before (identity / uid / parent / owner / children / text)', results, reuse
        if not reuse.startswith('ok:'):
            return 'after the observers the parser cannot parse another document: %s' % reuse, results, reuse
        fresh = self._mk(case['kind'])
        fresh.parseStr(case['again'])
        if fresh.getHTML() != reuse[3:]:
            return 'after the observers a new parse gives %r, a fresh parser gives %r' % (reuse[3:], fresh.getHTML()), results, reuse
        return None, results, reuse

    @staticmethod
    def _diff(a, b):
        names = ['serialisation', 'identity/uid/parent/owner', 'index maps', 'doctype', 'encoding']
        return ', '.join(n for n, x, y in zip(names, a, b) if x != y) or 'shape'

    def oracle(self, case):
        v, _, _ = self._run(case)
        return v

    @staticmethod
    def _raw(p):
        els = pc.preorder(p.getRoot())
        return [list(dict.keys(object.__getattribute__(e, '_attributes'))) for e in els]

    @staticmethod
    def _show_raw(raw):
        return ';'.join(','.join(k) for k in raw)

    def _trace(self, case):
        """-> (recorded parse, model ops, expected string) for the correspondence"""
        cls = pc.rec_class(case['kind'])
        p = cls()
        rec = pc.parse_recorded(p, c02.render(case['toks'], None))
        if rec[0] != 'ok' or p.getRoot() is None:
            return rec, [], None
        keep = []
        raw = self._raw(p)
        # reads made while parsing (the indexed parser looks at id / name / class of every new element) synchronise too: the
        # elements concerned are those whose raw keys differ from the same document parsed by the plain parser
        plain = self._mk('plain')
        plain.parseStr(c02.render(case['toks'], None))
        raw0 = self._raw(plain)
        if len(raw0) != len(raw):
            return rec, [], None
        mops = ['OSync %s' % clist(str(i) for i, (x, y) in enumerate(zip(raw0, raw)) if x != y)]
        out = [self._show_raw(raw0), self._show_raw(raw) + '+']
        for op in case['ops']:
            els = pc.preorder(p.getRoot())
            self._observe(p, op, keep)
            raw2 = self._raw(p)
            changed = [i for i, (x, y) in enumerate(zip(raw, raw2)) if x != y]
            raw = raw2
            flag = '+' if 'reset' in p.__dict__ else '-'
            mops.append('OSync %s' % clist(str(i) for i in changed))
            out.append(self._show_raw(raw) + flag)
            if op[1] in ('pickle', 'pickleE'):
                mops.append('OPickleParser')
                out.append(self._show_raw(raw) + flag)
            elif op[1] in ('cloneNode', 'copy', 'deepcopy'):
                mops.append('OCopy %d' % (int(op[2] * len(els)) % len(els)))
                out.append(self._show_raw(raw) + flag)
        els = pc.preorder(p.getRoot())
        rank = {id(e): i for i, e in enumerate(els)}
        ident = ';'.join('%d:%s:%s:%s' % (i, e.tagName, '-' if e.parentNode is None else rank.get(id(e.parentNode), '?'),
                                          '.'.join(str(rank.get(id(c), '?')) for c in e.children)) for i, e in enumerate(els))
        return rec, mops, '|'.join(out) + '|H' + core.hx(p.getHTML()) + '|I' + ident

    def run_impl(self, case):
        rec, mops, exp = self._trace(case)
        self._last = (id(case), rec, mops)
        if exp is None or not pc.names_ascii(rec[1], rec[2]):
            return None
        return exp

    def coq_case(self, case):
        if getattr(self, '_last', (None,))[0] == id(case):
            rec, mops = self._last[1], self._last[2]
        else:
            rec, mops, _ = self._trace(case)
        return '(%s, %s, %s)' % (pc.PCLASS[case['kind']], pc.coq_doc(rec[1], rec[2]), clist(mops))

    def shrink_candidates(self, case):
        ops = case['ops']
        for i in range(len(ops) - 1, -1, -1):
            yield dict(case, ops=ops[:i] + ops[i + 1:])

    def nontrivial_key(self, case, snap):
        return json.dumps(case['ops'], sort_keys=True) if len({o[1] for o in case['ops']}) >= 5 else None

    def finding_key(self, case, what):
        m = re.search(r'observer #\d+ (\w/\w+)', what)
        return m.group(1) if m else ('reuse' if 'cannot parse' in what or 'new parse' in what else 'other')


CHECK = C16
