(* Proofs about Model/Parser.v (C02, C03, C13). *)
From AHP Require Import Model.Base Model.Str Model.Attr Model.Dom Model.Serial Model.Parser Gen.Tables Proofs.StrProofs.

(* ---------------- attribute intake never fails ---------------- *)
Lemma setitem_ok k v s : snd (setitem k v s) = Attr.ROk.
Proof. unfold setitem. destruct (String.eqb (lower k) "style"); [reflexivity|].
  destruct (String.eqb (lower k) "class"); [reflexivity|]. destruct (is_binary_string (lower k)); reflexivity. Qed.
Lemma intake_ok a : forall s, snd (intake a s) = Attr.ROk.
Proof.
  unfold intake. assert (G : forall a acc, snd acc = Attr.ROk ->
    snd (fold_left (fun acc kv => match acc with
       | (s, Attr.ROk) => let k := lower (fst kv) in if valid_attr_name k then setitem k (snd kv) s else (s, Attr.ROk)
       | e => e end) a acc) = Attr.ROk).
  { clear. induction a as [|kv a IH]; intros acc H; simpl; auto. apply IH. destruct acc as [s r]. simpl in H. subst.
    destruct (valid_attr_name (lower (fst kv))); [apply setitem_ok | reflexivity]. }
  intros s. now apply G.
Qed.
Lemma make_tag_ok u n a leaf p : exists st, make_tag u n a leaf p = POk (Tag (mk_hdr u n st leaf p the_doc) [BText ""]).
Proof. unfold make_tag. pose proof (intake_ok a st0) as H. destruct (intake a st0) as [st r]. simpl in H. subst. eauto. Qed.

(* ---------------- inside an open element the plain handlers never raise ---------------- *)
Lemma push_block_nonnil b l : l <> [] -> push_block b l <> [].
Proof. destruct l; [congruence|]. simpl. discriminate. Qed.

Theorem pstep_plain_inside s t : pstk s <> [] -> has_root s = true -> exists s', pstep PPlain s t = POk s'.
Proof.
  intros Hs Hr. destruct t; simpl; eauto.
  - unfold handle_start. destruct (make_tag_ok (pnext s) (lower n) a (selfc || is_void (lower n)) (top_uid (pstk s))) as [st ->].
    rewrite Hr. simpl. destruct (pstk s) eqn:E; [congruence|]. destruct (selfc || is_void (lower n)); eauto.
  - destruct (String.eqb s0 ""); eauto. destruct (pstk s); [congruence|eauto].
  - unfold in_root_text. destruct (pstk s); [congruence|eauto].
  - unfold in_root_text. destruct (pstk s); [congruence|eauto].
  - unfold in_root_text. destruct (pstk s); [congruence|eauto].
  - destruct (pdoctype s) as [x|]; eauto. destruct (nonempty x); eauto.
Qed.

(* ---------------- the second pass: between the wrapper's start and end tag the stack never empties ---------------- *)
Definition reserved := invisible_root_tag.
Definition tok_ok (t : token) : bool :=
  match t with
  | TStart n _ _ => negb (String.eqb (lower n) reserved)
  | TEnd n => negb (String.eqb n reserved)
  | _ => true
  end.
(* the innermost-first stack ends in the wrapper's frame *)
Definition Bottom (s : pstate) : Prop :=
  exists fs f, pstk s = fs ++ [f] /\ name (fh f) = reserved /\ has_root s = true /\ Forall (fun g => name (fh g) <> reserved) fs.

Lemma push_block_name b f r : match push_block b (f :: r) with f' :: r' => name (fh f') = name (fh f) /\ r' = r | [] => False end.
Proof. simpl. split; [destruct b; reflexivity | reflexivity]. Qed.

Lemma push_block_Bottom_stk b fs f : Forall (fun g => name (fh g) <> reserved) fs -> name (fh f) = reserved ->
  exists fs' f', push_block b (fs ++ [f]) = fs' ++ [f'] /\ name (fh f') = reserved /\ Forall (fun g => name (fh g) <> reserved) fs' /\ length fs' = length fs.
Proof.
  intros HF Hn. destruct fs as [|g fs]; simpl.
  - eexists [], _. split; [reflexivity|]. split; [destruct b; exact Hn|]. split; [constructor|reflexivity].
  - inversion HF; subst. eexists (_ :: fs), f. split; [reflexivity|]. split; auto. split; [constructor; auto; destruct b; auto|reflexivity].
Qed.

Lemma pop_frame_Bottom s fs f g : pstk s = (g :: fs) ++ [f] -> has_root s = true -> name (fh f) = reserved ->
  Forall (fun x => name (fh x) <> reserved) (g :: fs) ->
  exists fs' f', pstk (pop_frame s) = fs' ++ [f'] /\ name (fh f') = reserved /\ has_root (pop_frame s) = true
                 /\ Forall (fun x => name (fh x) <> reserved) fs' /\ length fs' = length fs.
Proof.
  intros E Hr Hn HF. unfold pop_frame. rewrite E. inversion HF as [|? ? Hg HF']; subst.
  destruct fs as [|h fs]; simpl.
  - eexists [], _. simpl. split; [reflexivity|]. split; [exact Hn|]. split; [exact Hr|]. split; [constructor|reflexivity].
  - inversion HF'; subst. eexists (_ :: fs), f. simpl. split; [reflexivity|]. split; [exact Hn|]. split; [exact Hr|].
    split; [constructor; auto|reflexivity].
Qed.

Lemma has_name_app n a b : has_name n (a ++ b) = has_name n a || has_name n b.
Proof. induction a as [|x a IH]; simpl; auto. now rewrite IH, orb_assoc. Qed.

Lemma pop_until_Bottom n : n <> reserved -> forall k s fs f, pstk s = fs ++ [f] -> has_root s = true -> name (fh f) = reserved ->
  Forall (fun x => name (fh x) <> reserved) fs -> has_name n fs = true -> length fs <= k ->
  Bottom (pop_until k n s).
Proof.
  intros Hn. induction k as [|k IH]; intros s fs f E Hr Hf HF Hh Hl.
  - destruct fs; [discriminate|simpl in Hl; lia].
  - destruct fs as [|g fs]; [discriminate|]. simpl. rewrite E. simpl.
    destruct (pop_frame_Bottom s fs f g E Hr Hf HF) as (fs' & f' & E' & Hf' & Hr' & HF' & Hlen).
    destruct (String.eqb (name (fh g)) n) eqn:Eg.
    + exists fs', f'. auto.
    + simpl in Hh. rewrite Eg in Hh. simpl in Hh.
      (* the frames above the wrapper keep their names when the popped element is plugged into the next one *)
      assert (Hh' : has_name n fs' = true).
      { unfold pop_frame in E'. rewrite E in E'. destruct fs as [|h fs0]; simpl in *; [discriminate|].
        destruct fs' as [|h' fs0']; simpl in *; [destruct fs0; discriminate|].
        inversion E' as [[E1 E2]]. apply app_inj_tail in E2 as [E2 _]. subst. simpl. exact Hh. }
      apply (IH (pop_frame s) fs' f' E' Hr' Hf' HF' Hh'). simpl in Hl. lia.
Qed.

Lemma top_append_Bottom x s : Bottom s -> Bottom (top_append_text x s).
Proof.
  intros (fs & f & E & Hf & Hr & HF). unfold top_append_text, with_stk. rewrite E.
  destruct (push_block_Bottom_stk (BText x) fs f HF Hf) as (fs' & f' & E' & Hf' & HF' & _). exists fs', f'. cbn [pstk has_root]. auto.
Qed.

Theorem pstep_Bottom s t : tok_ok t = true -> Bottom s -> exists s', pstep PPlain s t = POk s' /\ Bottom s'.
Proof.
  intros Ht (fs & f & E & Hf & Hr & HF).
  assert (Hne : pstk s <> []) by (rewrite E; destruct fs; discriminate).
  assert (Hb : Bottom s) by (exists fs, f; auto).
  destruct t; simpl in *.
  - unfold handle_start. destruct (make_tag_ok (pnext s) (lower n) a (selfc || is_void (lower n)) (top_uid (pstk s))) as [st ->].
    rewrite Hr. cbn [negb].
    assert (Hxy : exists x y, fs ++ [f] = x :: y) by (destruct fs; simpl; eauto). destruct Hxy as (x & y & Hxy).
    rewrite E, Hxy. destruct (selfc || is_void (lower n)).
    + eexists. split; [reflexivity|]. rewrite <- Hxy.
      destruct (push_block_Bottom_stk (BTag (Tag (mk_hdr (pnext s) (lower n) st true (top_uid (fs ++ [f])) the_doc) [BText ""])) fs f HF Hf)
        as (fs' & f' & E' & Hf' & HF' & _). exists fs', f'. cbn [pstk has_root]. auto.
    + eexists. split; [reflexivity|]. rewrite <- Hxy.
      exists ({| fh := mk_hdr (pnext s) (lower n) st false (top_uid (fs ++ [f])) the_doc; fbs := [BText ""] |} :: fs), f.
      cbn [pstk has_root]. split; [reflexivity|]. split; auto. split; auto. constructor; auto. simpl.
      apply negb_true_iff, String.eqb_neq in Ht. exact Ht.
  - eexists. split; [reflexivity|]. unfold handle_end_plain. destruct (has_name n (pstk s)) eqn:Eh; [|exists fs, f; auto].
    apply negb_true_iff, String.eqb_neq in Ht.
    rewrite E in Eh. rewrite has_name_app in Eh. simpl in Eh. rewrite orb_false_r in Eh.
    assert (String.eqb (name (fh f)) n = false) as Hfn by (apply String.eqb_neq; congruence). rewrite Hfn, orb_false_r in Eh.
    apply (pop_until_Bottom n Ht (length (pstk s)) s fs f E Hr Hf HF Eh). rewrite E, app_length. simpl. lia.
  - destruct (String.eqb s0 ""); [eexists; split; [reflexivity|exact Hb]|].
    destruct (pstk s) eqn:E0; [congruence|]. eexists. split; [reflexivity|]. now apply top_append_Bottom.
  - unfold in_root_text. destruct (pstk s) eqn:E0; [congruence|]. eexists. split; [reflexivity|]. now apply top_append_Bottom.
  - unfold in_root_text. destruct (pstk s) eqn:E0; [congruence|]. eexists. split; [reflexivity|]. now apply top_append_Bottom.
  - unfold in_root_text. destruct (pstk s) eqn:E0; [congruence|]. eexists. split; [reflexivity|]. now apply top_append_Bottom.
  - eexists. split; [reflexivity|]. exists fs, f. auto.
  - destruct (pdoctype s) as [x|]; [destruct (nonempty x)|]; (eexists; split; [reflexivity|exists fs, f; auto]).
  - eexists. split; [reflexivity|]. exists fs, f. auto.
Qed.

Theorem prun_Bottom ts : forallb tok_ok ts = true -> forall s, Bottom s -> exists s', prun PPlain s ts = POk s' /\ Bottom s'.
Proof.
  induction ts as [|t ts IH]; intros Hok s Hb; simpl; [eauto|].
  simpl in Hok. apply andb_true_iff in Hok as [H1 H2].
  destruct (pstep_Bottom s t H1 Hb) as (s1 & -> & Hb1). apply IH; auto.
Qed.

(* the closing wrapper tag: pops everything, never raises *)
Lemma pstep_wrapper_end s : exists s', pstep PPlain s (TEnd reserved) = POk s'.
Proof. simpl. eauto. Qed.

(* the wrapped second pass of the plain parser is total *)
Theorem second_pass_total body : forallb tok_ok body = true ->
  exists s, prun PPlain pinit (TStart reserved [] false :: body ++ [TEnd reserved]) = POk s.
Proof.
  intros Hok.
  set (s0 := {| pstk := [{| fh := mk_hdr 0 reserved st0 false None the_doc; fbs := [BText ""] |}]; pdone := None; has_root := true;
                pdoctype := None; pnext := 1 |}).
  assert (E0 : pstep PPlain pinit (TStart reserved [] false) = POk s0) by reflexivity.
  cbn [prun]. rewrite E0.
  assert (Hb : Bottom s0).
  { exists [], {| fh := mk_hdr 0 reserved st0 false None the_doc; fbs := [BText ""] |}. simpl. repeat split; auto. }
  assert (G : forall ts s, Bottom s -> forallb tok_ok ts = true -> exists s', prun PPlain s (ts ++ [TEnd reserved]) = POk s').
  { clear. induction ts as [|t ts IH]; intros s Hb Hok; simpl; [eauto|].
    simpl in Hok. apply andb_true_iff in Hok as [H1 H2]. destruct (pstep_Bottom s t H1 Hb) as (s1 & E & Hb1).
    simpl in E. rewrite E. apply IH; auto. }
  apply G; auto.
Qed.

(* ---------------- feed of the plain parser never raises ---------------- *)
Lemma pstep_plain_only_multiroot s t e : pstep PPlain s t = PRaise e -> e = XMultipleRoot.
Proof.
  destruct t; simpl; try discriminate.
  - unfold handle_start. destruct (make_tag_ok (pnext s) (lower n) a (selfc || is_void (lower n)) (top_uid (pstk s))) as [st ->].
    simpl. destruct (negb (has_root s)); [destruct (selfc || is_void (lower n)); discriminate|].
    destruct (pstk s); [intros H; inversion H; auto|]. destruct (selfc || is_void (lower n)); discriminate.
  - destruct (String.eqb s0 ""); [discriminate|]. destruct (pstk s); [|discriminate].
    destruct (String.eqb (strip s0) ""); [discriminate|]. intros H; inversion H; auto.
  - unfold in_root_text. destruct (pstk s); [intros H; inversion H; auto|discriminate].
  - unfold in_root_text. destruct (pstk s); [intros H; inversion H; auto|discriminate].
  - unfold in_root_text. destruct (pstk s); [intros H; inversion H; auto|discriminate].
  - destruct (pdoctype s) as [x|]; [destruct (nonempty x)|]; discriminate.
Qed.
Lemma prun_plain_only_multiroot ts : forall s e, prun PPlain s ts = PRaise e -> e = XMultipleRoot.
Proof.
  induction ts as [|t ts IH]; intros s e; simpl; [discriminate|].
  destruct (pstep PPlain s t) as [s'|e'] eqn:E; [apply IH|]. intros H. inversion H; subst. eapply pstep_plain_only_multiroot; eauto.
Qed.

Lemma lstrip_all_ws s : forallb is_ws (chars s) = true -> lstrip_by is_ws s = "".
Proof. induction s as [|c s IH]; simpl; auto. intros H. apply andb_true_iff in H as [H1 H2]. rewrite H1. auto. Qed.
Lemma all_blank_ws s : forallb (fun c => Ascii.eqb c " " || Ascii.eqb c (ascii_of_nat 9)) (chars s) = true -> forallb is_ws (chars s) = true.
Proof.
  induction s as [|d s IHs]; simpl; auto. intros H. apply andb_true_iff in H as [H1 H2]. apply andb_true_iff. split; auto.
  apply orb_true_iff in H1 as [H1|H1]; apply Ascii.eqb_eq in H1; subst; reflexivity.
Qed.
Lemma nl_then_blanks_ws s : nl_then_blanks s = true -> forallb is_ws (chars s) = true.
Proof.
  unfold nl_then_blanks. induction s as [|c s IH]; simpl; auto.
  destruct (Ascii.eqb c (ascii_of_nat 10)) eqn:E.
  - intros H. apply Ascii.eqb_eq in E. subst. simpl. auto.
  - intros H. apply (all_blank_ws (String c s)) in H. exact H.
Qed.
Lemma nl_then_blanks_strip s : nl_then_blanks s = true -> strip s = "".
Proof. intros H. unfold strip, strip_by. rewrite (lstrip_all_ws s (nl_then_blanks_ws s H)). reflexivity. Qed.

Theorem second_pass_from body s : forallb tok_ok body = true -> pstk s = [] -> has_root s = false ->
  exists s', prun PPlain s (TStart reserved [] false :: body ++ [TEnd reserved]) = POk s'.
Proof.
  intros Hok Hs Hr.
  set (s0 := {| pstk := [{| fh := mk_hdr (pnext s) reserved st0 false None the_doc; fbs := [BText ""] |}]; pdone := None; has_root := true;
                pdoctype := pdoctype s; pnext := S (pnext s) |}).
  assert (E0 : pstep PPlain s (TStart reserved [] false) = POk s0).
  { simpl. unfold handle_start. cbn [negb]. rewrite Hr, Hs. reflexivity. }
  cbn [prun]. rewrite E0.
  assert (Hb : Bottom s0).
  { exists [], {| fh := mk_hdr (pnext s) reserved st0 false None the_doc; fbs := [BText ""] |}. simpl. repeat split; auto. }
  assert (G : forall ts s, Bottom s -> forallb tok_ok ts = true -> exists s', prun PPlain s (ts ++ [TEnd reserved]) = POk s').
  { clear. induction ts as [|t ts IH]; intros s Hb Hok; simpl; [eauto|].
    simpl in Hok. apply andb_true_iff in Hok as [H1 H2]. destruct (pstep_Bottom s t H1 Hb) as (s1 & E & Hb1).
    simpl in E. rewrite E. apply IH; auto. }
  apply G; auto.
Qed.

(* C03: for every first-pass stream and every body without the reserved name, feed returns normally *)
Theorem feed_plain_total ts1 body : forallb tok_ok body = true -> exists s, feed PPlain ts1 (wrap body) = POk s.
Proof.
  intros Hok. unfold feed. destruct (prun PPlain pinit ts1) as [s|e] eqn:E; [eauto|].
  rewrite (prun_plain_only_multiroot _ _ _ E).
  unfold wrap. destruct body as [|t r].
  - apply (second_pass_from [] pinit); auto.
  - destruct t; try (apply (second_pass_from _ pinit); auto).
    + (* TData ws :: TDecl d :: r *)
      destruct r as [|t2 r2]; [apply (second_pass_from _ pinit); auto|].
      destruct t2; try (apply (second_pass_from _ pinit); auto).
      destruct (is_doctype_decl s0 && nl_then_blanks s) eqn:Ec; [|apply (second_pass_from _ pinit); auto].
      apply andb_true_iff in Ec as [_ Hws].
      cbn [prun]. simpl pstep. rewrite (nl_then_blanks_strip s Hws). simpl.
      destruct (String.eqb s ""); cbn [prun pstep]; apply second_pass_from; auto;
        simpl in Hok; repeat (apply andb_true_iff in Hok as [? Hok]); auto.
    + (* TDecl d :: r *)
      destruct (is_doctype_decl s) eqn:Ec; [|apply (second_pass_from _ pinit); auto].
      cbn [prun pstep]. apply second_pass_from; auto.
Qed.

(* ---------------- C13: the validating parser ---------------- *)
(* whenever the validating handlers accept a token, the plain handlers do exactly the same *)
Theorem validating_step_same s t s' : pstep PValidating s t = POk s' -> pstep PPlain s t = POk s'.
Proof.
  destruct t; simpl; auto.
  - unfold handle_start. destruct (negb (forallb (fun kv => valid_attr_name (fst kv)) a)); [discriminate|auto].
  - unfold handle_end_validating, handle_end_plain. destruct (pstk s) as [|f r] eqn:E; [discriminate|].
    destruct (has_name n (f :: r)) eqn:Eh; simpl; [|discriminate].
    destruct (String.eqb (name (fh f)) n) eqn:En; simpl; [|discriminate].
    intros H. inversion H; subst. f_equal. rewrite E. simpl. now rewrite En.
Qed.
Theorem validating_run_same ts : forall s s', prun PValidating s ts = POk s' -> prun PPlain s ts = POk s'.
Proof.
  induction ts as [|t ts IH]; intros s s'; simpl; auto.
  destruct (pstep PValidating s t) as [s1|e] eqn:E; [|discriminate]. rewrite (validating_step_same _ _ _ E). apply IH.
Qed.
Lemma validating_step_multiroot s t : pstep PValidating s t = PRaise XMultipleRoot -> pstep PPlain s t = PRaise XMultipleRoot.
Proof.
  destruct t; simpl; auto.
  - unfold handle_start. destruct (negb (forallb (fun kv => valid_attr_name (fst kv)) a)); [discriminate|auto].
  - unfold handle_end_validating. destruct (pstk s) as [|f r]; [discriminate|].
    destruct (negb (has_name n (f :: r))); [discriminate|]. destruct (negb (String.eqb (name (fh f)) n)); discriminate.
Qed.
Lemma validating_run_multiroot ts : forall s, prun PValidating s ts = PRaise XMultipleRoot -> prun PPlain s ts = PRaise XMultipleRoot.
Proof.
  induction ts as [|t ts IH]; intros s; simpl; [discriminate|].
  destruct (pstep PValidating s t) as [s1|e] eqn:E.
  - rewrite (validating_step_same _ _ _ E). apply IH.
  - intros H. inversion H; subst. now rewrite (validating_step_multiroot _ _ E).
Qed.
(* when the validating parser does not raise it builds the same tree as the plain parser *)
Theorem validating_accepts_same ts1 ts2 s : feed PValidating ts1 ts2 = POk s -> feed PPlain ts1 ts2 = POk s.
Proof.
  unfold feed. destruct (prun PValidating pinit ts1) as [s1|e] eqn:E.
  - intros H. inversion H; subst. now rewrite (validating_run_same _ _ _ E).
  - destruct e; try discriminate. rewrite (validating_run_multiroot _ _ E). apply validating_run_same.
Qed.

(* the three documented exceptions, at the token that causes them *)
Theorem validating_invalid_attr s n a selfc : forallb (fun kv => valid_attr_name (fst kv)) a = false ->
  pstep PValidating s (TStart n a selfc) = PRaise XInvalidAttrName.
Proof. intros H. simpl. unfold handle_start. now rewrite H. Qed.
Theorem validating_invalid_close s n : has_name n (pstk s) = false -> pstep PValidating s (TEnd n) = PRaise XInvalidClose.
Proof. intros H. simpl. unfold handle_end_validating. destruct (pstk s); [reflexivity|]. now rewrite H. Qed.
Theorem validating_missed_close s n f r : pstk s = f :: r -> has_name n (pstk s) = true -> name (fh f) <> n ->
  pstep PValidating s (TEnd n) = PRaise XMissedClose.
Proof.
  intros E H Hn. simpl. unfold handle_end_validating. rewrite E in *. rewrite H. simpl.
  apply String.eqb_neq in Hn. now rewrite Hn.
Qed.
Theorem validating_proper_close s n f r : pstk s = f :: r -> name (fh f) = n -> pstep PValidating s (TEnd n) = POk (pop_frame s).
Proof.
  intros E Hn. simpl. unfold handle_end_validating. rewrite E. simpl. apply String.eqb_eq in Hn. now rewrite Hn.
Qed.

(* ---------------- C02: end tags, void elements, doctype ---------------- *)
(* an end tag whose name is not open is ignored *)
Theorem end_tag_ignored s n : has_name n (pstk s) = false -> pstep PPlain s (TEnd n) = POk s.
Proof. intros H. simpl. unfold handle_end_plain. now rewrite H. Qed.
(* an end tag matching the innermost open element closes exactly it *)
Theorem end_tag_innermost s n f r : pstk s = f :: r -> name (fh f) = n -> pstep PPlain s (TEnd n) = POk (pop_frame s).
Proof.
  intros E Hn. simpl. unfold handle_end_plain. rewrite E. apply String.eqb_eq in Hn. cbn [has_name]. rewrite Hn. cbn [orb length pop_until].
  rewrite E, Hn. reflexivity.
Qed.
(* closing the nearest open element of that name closes everything opened inside it first *)
Theorem end_tag_nearest s n f r : pstk s = f :: r -> name (fh f) <> n -> has_name n r = true ->
  pstep PPlain s (TEnd n) = pstep PPlain (pop_frame s) (TEnd n).
Proof.
  intros E Hn Hr. simpl. unfold handle_end_plain. rewrite E. apply String.eqb_neq in Hn. cbn [has_name]. rewrite Hn, Hr. cbn [orb length pop_until].
  rewrite E, Hn. f_equal. unfold pop_frame. rewrite E. destruct r as [|g r']; [discriminate|]. cbn [pstk with_stk].
  assert (Hh : has_name n (push_block (BTag (Tag (fh f) (fbs f))) (g :: r')) = true) by exact Hr.
  rewrite Hh. reflexivity.
Qed.
(* void and self-closed elements never stay open *)
Theorem leaf_never_open s n a selfc s' : (has_root s = false -> pstk s = []) -> selfc || is_void (lower n) = true ->
  pstep PPlain s (TStart n a selfc) = POk s' -> length (pstk s') = length (pstk s).
Proof.
  intros Hinv Hl. simpl. unfold handle_start. destruct (make_tag_ok (pnext s) (lower n) a (selfc || is_void (lower n)) (top_uid (pstk s))) as [st ->].
  rewrite Hl. cbn [negb]. destruct (has_root s) eqn:Er; cbn [negb].
  - destruct (pstk s) eqn:E; [discriminate|]. intros H. inversion H; subst. reflexivity.
  - rewrite (Hinv eq_refl). intros H. inversion H; subst. reflexivity.
Qed.

(* ---------------- every tree the parser builds satisfies the structural invariant of C04 ---------------- *)
From AHP Require Import Proofs.DomProofs.

Definition PWF (s : pstate) : Prop :=
  StackWF the_doc (pstk s) /\ match pdone s with Some t => WF None the_doc t | None => True end.

Lemma StackWF_push own b f r : StackWF own (f :: r) ->
  (match b with BTag c => WF (Some (uid (fh f))) own c | BText _ => True end) -> StackWF own (push_block b (f :: r)).
Proof.
  intros [Hf Hr] Hb. pose proof (push_block_WF own b f r Hf Hb) as H. simpl in H. simpl. destruct H as (H1 & _ & _). split; auto.
Qed.

Lemma pop_frame_PWF s : PWF s -> PWF (pop_frame s).
Proof.
  intros [Hs Hr]. unfold pop_frame. destruct (pstk s) as [|f [|g r]] eqn:E; [split; [rewrite E|]; auto| |].
  - simpl in *. split; simpl; auto. tauto.
  - destruct Hs as (Hf & Hg & Hrest). simpl in Hf.
    pose proof (push_block_WF the_doc (BTag (Tag (fh f) (fbs f))) g r Hg Hf) as H.
    unfold PWF, with_stk. cbn [pstk pdone]. destruct (push_block (BTag (Tag (fh f) (fbs f))) (g :: r)) as [|f' r'] eqn:Ep; [tauto|].
    destruct H as (H1 & -> & _). split; [split; auto | exact Hr].
Qed.
Lemma pop_until_PWF n k : forall s, PWF s -> PWF (pop_until k n s).
Proof.
  induction k as [|k IH]; intros s H; simpl; auto.
  destruct (pstk s) as [|f r]; auto. destruct (String.eqb (name (fh f)) n); [now apply pop_frame_PWF | apply IH; now apply pop_frame_PWF].
Qed.
Lemma plug_all_PWF k : forall s, PWF s -> PWF (plug_all k s).
Proof.
  induction k as [|k IH]; intros s H; simpl; auto.
  destruct (pstk s) as [|f r]; auto. apply IH. now apply pop_frame_PWF.
Qed.
Lemma top_append_PWF x s : pstk s <> [] -> PWF s -> PWF (top_append_text x s).
Proof.
  intros Hne [Hs Hr]. unfold top_append_text, with_stk, PWF. cbn [pstk pdone]. destruct (pstk s) as [|f r] eqn:E; [congruence|].
  destruct Hs as [Hf Hrest].
  pose proof (push_block_WF the_doc (BText x) f r Hf I) as Hp.
  destruct (push_block (BText x) (f :: r)) as [|f' r'] eqn:Ep; [tauto|]. destruct Hp as (H1 & -> & _). split; [split; auto | exact Hr].
Qed.

Theorem pstep_PWF cls s t s' : (has_root s = false -> pstk s = [] /\ pdone s = None) -> PWF s -> pstep cls s t = POk s' ->
  PWF s' /\ (has_root s' = false -> pstk s' = [] /\ pdone s' = None).
Proof.
  intros Hinv H. destruct t; simpl.
  - unfold handle_start. destruct (match cls with PValidating => _ | _ => false end); [discriminate|].
    destruct (make_tag_ok (pnext s) (lower n) a (selfc || is_void (lower n)) (top_uid (pstk s))) as [st ->].
    destruct (has_root s) eqn:Er; cbn [negb].
    + destruct (pstk s) as [|f r] eqn:E; [discriminate|]. destruct H as [Hs Hr]. rewrite E in Hs.
      destruct (selfc || is_void (lower n)); intros H0; inversion H0; subst; (split; [|discriminate]); unfold PWF; cbn [pstk pdone].
      * split; [|exact Hr]. exact (StackWF_push the_doc (BTag (Tag (mk_hdr (pnext s) (lower n) st true (top_uid (f :: r)) the_doc) [BText ""])) f r Hs (new_leaf_WF _ _ _ _ _ _)).
      * split; [|exact Hr]. split; [apply new_leaf_WF | exact Hs].
    + destruct (Hinv eq_refl) as [E Ed]. rewrite E.
      destruct (selfc || is_void (lower n)); intros H0; inversion H0; subst; (split; [|discriminate]); unfold PWF; cbn [pstk pdone]; simpl.
      * split; auto. apply new_leaf_WF.
      * split; auto. split; auto. apply new_leaf_WF.
  - destruct cls; try (intros H0; inversion H0; subst; split; [unfold handle_end_plain; destruct (has_name n (pstk s)); [now apply pop_until_PWF | exact H] | ]).
    + unfold handle_end_plain. destruct (has_name n (pstk s)) eqn:Eh; [|exact Hinv]. intros Hr0. exfalso.
      (* pop_until never changes has_root *)
      assert (G : forall k s0, has_root (pop_until k n s0) = has_root s0).
      { clear. induction k as [|k IH]; intros s0; simpl; auto. destruct (pstk s0) as [|f r] eqn:E; auto.
        assert (Hp : has_root (pop_frame s0) = has_root s0) by (unfold pop_frame; rewrite E; destruct r; reflexivity).
        destruct (String.eqb (name (fh f)) n); [exact Hp | rewrite IH; exact Hp]. }
      rewrite G in Hr0. destruct (Hinv Hr0) as [E _]. rewrite E in Eh. discriminate.
    + unfold handle_end_plain. destruct (has_name n (pstk s)) eqn:Eh; [|exact Hinv]. intros Hr0. exfalso.
      assert (G : forall k s0, has_root (pop_until k n s0) = has_root s0).
      { clear. induction k as [|k IH]; intros s0; simpl; auto. destruct (pstk s0) as [|f r] eqn:E; auto.
        assert (Hp : has_root (pop_frame s0) = has_root s0) by (unfold pop_frame; rewrite E; destruct r; reflexivity).
        destruct (String.eqb (name (fh f)) n); [exact Hp | rewrite IH; exact Hp]. }
      rewrite G in Hr0. destruct (Hinv Hr0) as [E _]. rewrite E in Eh. discriminate.
    + unfold handle_end_validating. destruct (pstk s) as [|f r] eqn:E; [discriminate|].
      destruct (negb (has_name n (f :: r))); [discriminate|]. destruct (negb (String.eqb (name (fh f)) n)); [discriminate|].
      intros H0. inversion H0; subst. split; [now apply pop_frame_PWF|].
      intros Hr0. assert (Hp : has_root (pop_frame s) = has_root s) by (unfold pop_frame; rewrite E; destruct r; reflexivity).
      rewrite Hp in Hr0. destruct (Hinv Hr0) as [E' _]. congruence.
  - destruct (String.eqb s0 ""); [intros H0; inversion H0; subst; auto|].
    destruct (pstk s) eqn:E; [destruct (String.eqb (strip s0) ""); [intros H0; inversion H0; subst; rewrite E; auto|discriminate]|].
    intros H0. inversion H0; subst. split; [apply top_append_PWF; [rewrite E; discriminate|exact H]|].
    unfold top_append_text, with_stk. cbn [has_root]. intros Hr0. destruct (Hinv Hr0) as [E' _]. congruence.
  - unfold in_root_text. destruct (pstk s) eqn:E; [discriminate|]. intros H0. inversion H0; subst.
    split; [apply top_append_PWF; [rewrite E; discriminate|exact H]|].
    unfold top_append_text, with_stk. cbn [has_root]. intros Hr0. destruct (Hinv Hr0) as [E' _]. congruence.
  - unfold in_root_text. destruct (pstk s) eqn:E; [discriminate|]. intros H0. inversion H0; subst.
    split; [apply top_append_PWF; [rewrite E; discriminate|exact H]|].
    unfold top_append_text, with_stk. cbn [has_root]. intros Hr0. destruct (Hinv Hr0) as [E' _]. congruence.
  - unfold in_root_text. destruct (pstk s) eqn:E; [discriminate|]. intros H0. inversion H0; subst.
    split; [apply top_append_PWF; [rewrite E; discriminate|exact H]|].
    unfold top_append_text, with_stk. cbn [has_root]. intros Hr0. destruct (Hinv Hr0) as [E' _]. congruence.
  - intros H0. inversion H0; subst. split; [exact H | exact Hinv].
  - destruct (pdoctype s) as [x|]; [destruct (nonempty x)|]; intros H0; inversion H0; subst; (split; [exact H | exact Hinv]).
  - intros H0. inversion H0; subst. auto.
Qed.

Theorem prun_PWF cls ts : forall s s', (has_root s = false -> pstk s = [] /\ pdone s = None) -> PWF s -> prun cls s ts = POk s' -> PWF s'.
Proof.
  induction ts as [|t ts IH]; intros s s' Hinv H; simpl; [intros H0; inversion H0; subst; auto|].
  destruct (pstep cls s t) as [s1|e] eqn:E; [|discriminate].
  destruct (pstep_PWF cls s t s1 Hinv H E) as [H1 Hinv1]. now apply IH.
Qed.
Lemma pinit_PWF : PWF pinit. Proof. split; simpl; auto. Qed.

(* C04 seed for the real parser (all classes, attributes included): the tree left by any accepted feed *)
Theorem feed_tree_WF cls ts1 ts2 s : feed cls ts1 ts2 = POk s -> match tree_of s with Some t => WF None the_doc t | None => True end.
Proof.
  intros H. assert (Hs : PWF s).
  { unfold feed in H. destruct (prun cls pinit ts1) as [s1|e] eqn:E.
    - inversion H; subst. eapply prun_PWF; eauto using pinit_PWF. intros _. auto.
    - destruct e; try discriminate. eapply prun_PWF; eauto using pinit_PWF. intros _. auto. }
  unfold tree_of. pose proof (plug_all_PWF (length (pstk s)) s Hs) as [_ Hr]. exact Hr.
Qed.
